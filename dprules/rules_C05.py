"""C05 - unmanaged pool conserves its objects and respects max_size."""
from .ucommon import uroles, armed_flag_skips
from . import poscontrol
from .mcommon import calls_named, in_cycle, held_locals, governing_conditions
from .roles import adt_of, PERMIT_ADT
from .facts import strip_generics, Operand, Place
import re
from .analysis import sources, success_edges, reach_without_edges, variants_at, payload_ty

TECHNIQUE = 'drop-site audit of values containing T (may-init dataflow), dominance order of push / add_permits / acquire / pop, who-may-call and constructor consistency by def-use origin, counter pairing inventory, guard-at-suspension-point for the waiting counter; crate attribute + impl inventory for non-duplication'
LEVEL_TEXT = 'static analysis of every path of the unmanaged module'
EXPLANATION = ('Decided: the crate forbids unsafe code and unmanaged::Object has no Clone impl (objects cannot be duplicated); a value '
               'containing T is dropped only in Object::drop when the pool is gone and inside the clearing function, which is reachable only '
               'from close() after both semaphores were closed and from the closed branch of the return path; an object is pushed before its '
               'permit is added and popped only under a held permit, which is forgotten only after the pop succeeded; new objects are pushed only '
               'by the add helper, called only on the success branch of an acquisition on the size semaphore whose permit is forgotten; take '
               'returns one size permit and decrements size once; both constructors initialise semaphores and counters consistently; the result '
               'mapping of add / try_add returns the object; available is decremented before the acquisition under a guard that undoes it on every '
               'non-success exit (waiting is observable).')

ELEMENT_DROPPING = {'clear', 'truncate', 'drain', 'remove', 'swap_remove', 'retain', 'retain_mut', 'dedup', 'split_off', 'resize', 'resize_with', 'set_len', 'extract_if'}


def holds_T(l):
    ty = l['ty']
    if ty.startswith('&') or ty.startswith('*') or ty.startswith('{') or ty.startswith('impl ') or l['parts'].get('closures'):
        return False
    adts = l['parts']['adts']
    if 'std::sync::MutexGuard' in adts or 'std::sync::Arc' in adts or 'std::sync::Weak' in adts:
        return False
    if any(a.startswith('deadpool::unmanaged::') and a.split('::')[-1] in ('Object', 'Pool', 'PoolInner') for a in adts):
        return False
    if adt_of(ty) == 'std::task::Poll':
        return False
    return 'T' in l['parts']['params'] or 'I' in l['parts']['params'] and 'Vec' in ty


def run(ctx):
    r = uroles(ctx)
    if r.ADD_DELEGATES:
        from .engine import Undecided
        if r.ADD_DEADLINE:
            blk, what = r.ADD_DEADLINE
            ctx.ob('R05.4', 'add() waits for a slot without a deadline', False, ctx.where(r.ADD, blk.term.line),
                   'add() hands the adder it delegates to a deadline that is not `None` (from %s): on a full pool it gives up / refuses instead of waiting' % what,
                   construct='add:delegated-deadline')
        raise Undecided(r.ADD_DELEGATES)
    prog = ctx.prog
    bodies = r.bodies()

    # ---- R05.1 no duplication possible -------------------------------------------------------
    attrs = ' '.join(r.crate.crate_attrs)
    ctx.ob('R05.1', 'crate forbids unsafe code', 'forbid(' in attrs and 'unsafe_code' in attrs, 'src/lib.rs', '', construct='forbid-unsafe')
    clones = [i for i in r.crate.impls if i.get('trait') == 'std::clone::Clone' and adt_of(i['self_ty']) == r.OBJECT]
    ctx.ob('R05.1', 'unmanaged::Object is not Clone', not clones, '', '', construct='object-clone')
    copies = [i for i in r.crate.impls if i.get('trait') == 'std::marker::Copy' and adt_of(i['self_ty']) == r.OBJECT]
    ctx.ob('R05.1', 'unmanaged::Object is not Copy', not copies, '', '', construct='object-copy')
    # no clone() of a T anywhere in the module
    for b in bodies:
        for blk in b.blocks:
            t = blk.term
            if t.kind == 'call' and not blk.cleanup and any(n.endswith('Clone::clone') for n in t.callee_names()):
                targ = (t.func.const.get('targs') or [''])[0]
                if targ == 'T' or targ.startswith('std::vec::Vec<T') or targ.startswith('std::option::Option<T'):
                    ctx.ob('R05.1', 'no clone of a pooled object', False, ctx.where(b, t.line), targ, construct='clone-T:' + b.name)

    poscontrol.assert_controls(ctx, ['clone'])
    # ---- R05.2 drop-site audit ----------------------------------------------------------------
    n = 0
    for b in bodies:
        an = prog.an(b)
        ctx.saw(b)
        for blk in b.blocks:
            if blk.cleanup:
                continue
            t = blk.term
            site = None
            if t.kind == 'drop' and t.place.is_local() and holds_T(b.locals[t.place.local]):
                st = an.state_at_term(blk.idx)
                if st is None or not ((st[1] >> t.place.local) & 1):
                    continue
                # which variant can the value have here? (`?` leaves a ControlFlow::Break without any T)
                vs = variants_at(an, blk.idx, t.place.local)
                if vs:
                    pts = [payload_ty(b.locals[t.place.local]['ty'], v) for v in vs]
                    if all(p_ is not None and not re.search(r'\bT\b', p_) for p_ in pts):
                        continue
                site = 'drop of `%s` (%s)' % (an.resolve_local(t.place.local), b.locals[t.place.local]['ty'])
            elif t.kind == 'call' and t.callee_names() & {'std::mem::drop', 'std::mem::forget'} and t.args and t.args[0].kind == 'move' and holds_T(b.locals[t.args[0].place.local]):
                site = 'mem::drop/forget of %s' % b.locals[t.args[0].place.local]['ty']
            if site is None:
                continue
            n += 1
            w = ctx.where(b, t.line)
            normal_reach = an.reach([0], ('normal',))
            if blk.idx not in normal_reach and b.path == r.ADD.path and t.kind == 'drop' and \
                    any(s[0] == 'upvar' and s[1].startswith('object') for s in sources(an, Operand({'c': {'l': t.place.local, 'pr': [], 'own': []}}))):
                ctx.ob('R05.2', 'a cancelled add() drops only the object the caller gave up with the future', True, w,
                       'cancel path of add(): the not-yet-added object is owned by the abandoned future', construct='add-cancel-drop', sites=[w])
                continue
            if b.path == r.OBJ_DROP.path:
                # allowed only when the pool is gone: None arm of the upgrade
                ups = [x for x in b.blocks if x.term.kind == 'switch' and x.term.j.get('adt') == 'std::option::Option' and 'on' in x.term.j and
                       any(s[0] == 'call' and s[1].endswith('Weak::upgrade') for s in sources(an, Operand({'c': x.term.j['on']})))]
                ok = any(blk.idx in an.reach([dict(x.term.switch_arms())['None']], ('normal',), avoid=[dict(x.term.switch_arms())['Some']]) for x in ups)
                ctx.ob('R05.2', 'Object::drop drops the value only when the pool is gone', ok, w, site, construct='drop-dead-pool', sites=[w])
            elif 'I' in b.locals[t.place.local]['parts']['params'] if t.kind == 'drop' else False:
                ctx.ob('R05.2', 'iterator consumed by collect', True, w, site, construct='from-iter')
            else:
                ctx.ob('R05.2', 'no object is dropped while the pool is open', False, w, '%s in %s' % (site, b.name), construct='drop-T:' + b.name)
    ctx.count('drop_sites_T', n)
    ctx.floor('R05.2', 'drop sites of values containing T examined', n, 1)
    # element-dropping Vec methods on the queue
    for b in bodies:
        for blk, m in r.queue_calls(b):
            if m in ELEMENT_DROPPING:
                ok = r.CLEAR is not None and b.path == r.CLEAR.path and m == 'clear'
                ctx.ob('R05.2', 'queue elements dropped only by the clearing function', ok, ctx.where(b, blk.term.line), 'Vec::%s on the queue in %s' % (m, b.name),
                       construct='queue-drop:%s:%s' % (b.name, m))
            if m == 'pop':
                # the popped value must reach the caller (Object aggregate) on the success path
                an = prog.an(b)
                aggs = [s for x in b.blocks for s in x.stmts if s.kind == 'assign' and s.rv.kind == 'agg' and s.rv.j.get('adt') == r.OBJECT]
                ok = any(any(s2[0] == 'call' and s2[2] == blk.idx for s2 in sources(an, s.rv.ops[s.rv.j['fields'].index('obj')])) for s in aggs)
                ctx.ob('R05.2', 'popped object is handed to the caller', ok, ctx.where(b, blk.term.line), '', construct='pop-flow:' + b.name)
    # who may clear
    if r.CLEAR is not None:
        callers = prog.callers_of(r.CLEAR.path)
        for cp, bb, k in callers:
            cb = prog.bodies[cp]
            can = prog.an(cb)
            if cp == r.CLOSE.path:
                closes = [x.idx for x, w in r.sem_calls(cb, 'close')]
                whichs = sorted(w for x, w in r.sem_calls(cb, 'close'))
                flag = r.closed_flag_sem(); recheck = r.add_helper_rechecks_closed()
                must_before = [x.idx for x, w in r.sem_calls(cb, 'close') if w == flag or not recheck or flag is None]
                ok = whichs == ['SEM', 'SIZESEM'] and all(can.dominates(c, bb) for c in must_before) and bool(must_before)
                ctx.ob('R05.2', 'close() clears only after the pool reports itself closed (both semaphores get closed)', ok, ctx.where(cb, cb.blocks[bb].term.line), 'closes: %s' % whichs, construct='clear-from-close')
            else:
                # must be on the is_closed() == true branch
                conds = [blk for blk in cb.blocks if blk.term.kind == 'switch' and blk.term.j.get('dty') == 'bool' and
                         any(s[0] == 'call' and s[1].endswith('is_closed') for s in sources(can, blk.term.discr))]
                ok = any(bb in can.reach([dict(x.term.switch_arms())['true']], ('normal',), avoid=[dict(x.term.switch_arms())['false']]) and
                         bb not in can.reach([dict(x.term.switch_arms())['false']], ('normal',), avoid=[dict(x.term.switch_arms())['true']]) for x in conds)
                ctx.ob('R05.2', 'the queue is cleared outside close() only when the pool is closed', ok, ctx.where(cb, cb.blocks[bb].term.line), 'clear called from %s' % cb.name,
                       construct='clear-from:' + cb.name)
        ctx.floor('R05.2', 'callers of the clearing function', len(callers), 2)
        cleanup_unconditional(ctx, r, 'R05.2')

    # ---- R05.3 ordering ---------------------------------------------------------------------------
    for b in (r.ADD_HELPER, r.OBJ_DROP):
        an = prog.an(b)
        pushes = [x for x, m in r.queue_calls(b) if m == 'push']
        adds = [x for x, w in r.sem_calls(b, 'add_permits', 'SEM')]
        ok = len(pushes) == 1 and len(adds) == 1 and an.dominates(pushes[0].idx, adds[0].idx) and pushes[0].idx != adds[0].idx
        ctx.ob('R05.3', 'object pushed before its permit is added', ok, ctx.where(b), '%d pushes, %d add_permits' % (len(pushes), len(adds)), construct='push-before-permit:' + b.name)
        if adds:
            amt = an.resolve_operand(adds[0].term.args[1])
            ctx.ob('R05.3', 'one permit per object', amt == '1_usize' and not in_cycle(an, adds[0].idx), ctx.where(b, adds[0].term.line), 'add_permits(%s)' % amt, construct='permit-amount:' + b.name)
        # the guard of the push is released before add_permits (a waiter woken by the permit can pop at once)
    for b in (r.TRY_GET, r.TIMEOUT_GET):
        an = prog.an(b)
        pops = [x for x, m in r.queue_calls(b) if m == 'pop']
        ctx.ob('R05.3', 'one pop per get', len(pops) == 1, ctx.where(b), '%d pops' % len(pops), construct='pop-count:' + b.name)
        for p in pops:
            held = held_locals(an, p.idx, PERMIT_ADT)
            ctx.ob('R05.3', 'object popped only under a held permit', bool(held), ctx.where(b, p.term.line), '', construct='pop-without-permit:' + b.name)
            # the permit comes from the object semaphore
            src = set()
            for h in held:
                src |= sources(an, Operand({'c': {'l': h, 'pr': [], 'own': []}}))
            acq = [s for s in src if s[0] == 'call' and s[1] in ('tokio::sync::Semaphore::try_acquire', 'tokio::sync::Semaphore::acquire', 'deadpool_runtime::Runtime::timeout')]
            sems = {w for x, w in r.sem_calls(b, 'try_acquire') + r.sem_calls(b, 'acquire')}
            ctx.ob('R05.3', 'the permit was acquired on the object semaphore', bool(acq) and sems == {'SEM'}, ctx.where(b, p.term.line), 'acquired on %s' % sorted(sems), construct='pop-permit-sem:' + b.name)
        forgets = [x for x in calls_named(b, ['tokio::sync::SemaphorePermit::forget']) if not x.cleanup]
        ok_e, fail_e = success_edges(an)
        for f in forgets:
            ok = any(an.dominates(p.idx, f.idx) for p in pops)
            ctx.ob('R05.3', 'permit forgotten only after the pop', ok, ctx.where(b, f.term.line), '', construct='forget-before-pop:' + b.name)
            # nothing fallible after forget
            after = an.reach_after(f.idx, ('normal',))
            bad = [b.blocks[x].term.line for x in after if b.blocks[x].term.kind == 'yield'] + \
                  [b.blocks[bb].term.line for bb, cls, det in an.ret_assignments() if bb in after and cls in ('err', 'residual')]
            ctx.ob('R05.3', 'nothing can fail after the permit is forgotten', not bad, ctx.where(b, f.term.line), str(bad), construct='forget-then-fail:' + b.name)
        oks = [bb for bb, cls, det in an.ret_assignments() if cls == 'ok']
        for bb in oks:
            reach_wo = an.reach([0], ('normal',), avoid=[f.idx for f in forgets])
            ctx.ob('R05.3', 'a successful get forgets its permit', bb not in reach_wo and bool(forgets), ctx.where(b, b.blocks[bb].term.line), '', construct='ok-without-forget:' + b.name)

    # ---- R05.4 max_size ----------------------------------------------------------------------------
    pushers = sorted({b.name for b in bodies for x, m in r.queue_calls(b) if m in ('push', 'insert', 'extend', 'append', 'extend_from_slice')})
    ctx.ob('R05.4', 'objects enter the queue only via the add helper and the return path', pushers == sorted([r.ADD_HELPER.name, r.OBJ_DROP.name]), '', str(pushers), construct='pushers', sites=pushers)
    callers = sorted({prog.bodies[cp].name for cp, bb, k in prog.callers_of(r.ADD_HELPER.path)})
    ctx.ob('R05.4', 'the add helper is called only from add / try_add', callers == sorted([r.ADD.name, r.TRY_ADD.name]), '', str(callers), construct='add-helper-callers', sites=callers)
    for b in (r.ADD, r.TRY_ADD):
        an = prog.an(b)
        ctx.saw(b)
        hc = [x for x in b.blocks if x.term.kind == 'call' and x.term.rcallee == r.ADD_HELPER.path and not x.cleanup]
        acqs = r.sem_calls(b, 'try_acquire') + r.sem_calls(b, 'acquire')
        forgets = [x for x in calls_named(b, ['tokio::sync::SemaphorePermit::forget']) if not x.cleanup]
        ok = len(hc) == 1 and len(forgets) == 1 and {w for x, w in acqs} == {'SIZESEM'}
        ctx.ob('R05.4', 'add path: one acquisition on the size semaphore, one forget, one publish', ok, ctx.where(b),
               'helper calls %d, forgets %d, acquisitions on %s' % (len(hc), len(forgets), sorted({w for x, w in acqs})), construct='add-shape:' + b.name)
        if ok:
            # publish only on the Ok arm of the acquisition result
            ok_e, fail_e = success_edges(an)
            first = acqs[0][0]
            reach = reach_without_edges(an, first.idx, ok_e, ('normal',))
            ctx.ob('R05.4', 'object published only after a size permit was obtained', hc[0].idx not in reach, ctx.where(b, hc[0].term.line), '', construct='add-without-permit:' + b.name)
            src = sources(an, forgets[0].term.args[0])
            ctx.ob('R05.4', 'the size permit is forgotten (kept by the pool)', any(s[0] == 'call' and s[1].startswith('tokio::sync::Semaphore::') for s in src) and
                   an.dominates(forgets[0].idx, hc[0].idx) or an.dominates(hc[0].idx, forgets[0].idx), ctx.where(b, forgets[0].term.line), '', construct='add-forget:' + b.name)
    # take returns the size slot
    tk = r.TAKE
    tan = prog.an(tk)
    ctx.saw(tk)
    adds = r.sem_calls(tk, 'add_permits')
    subs = [x for x in r.atomic_calls(tk, r.SIZE) if x[1] == 'fetch_sub']
    ok = len(adds) == 1 and adds[0][1] == 'SIZESEM' and tan.resolve_operand(adds[0][0].term.args[1]) == '1_usize' and len(subs) == 1 and subs[0][2] == '1_usize'
    if ok:
        # ... on every path on which the pool is still alive (no condition on how full the pool was)
        ups = [x for x in tk.blocks if x.term.kind == 'switch' and x.term.j.get('adt') == 'std::option::Option' and 'on' in x.term.j and
               any(s[0] == 'call' and s[1].endswith('Weak::upgrade') for s in sources(tan, Operand({'c': x.term.j['on']})))]
        rets = tan.exits()['return']
        for what, bb in (('add_permits(1) on the size semaphore', adds[0][0].idx), ('size -= 1', subs[0][0].idx)):
            okp = bool(ups)
            for u_ in ups:
                arms = dict(u_.term.switch_arms())
                esc = tan.reach([arms['Some']], ('normal',), avoid=[bb, arms['None']])
                okp = okp and not any(e in esc for e in rets)
            ctx.ob('R05.4', 'take: %s on every path with a live pool' % what, okp, ctx.where(tk, tk.blocks[bb].term.line),
                   'the size slot is only given back conditionally: capacity leaks when the condition does not hold' if not okp else '', construct='take-size-slot-conditional:' + what.split()[0])
    ctx.ob('R05.4', 'take returns one permit to the size semaphore and decrements size once', ok, ctx.where(tk),
           'add_permits %s, size updates %s' % ([(w, tan.resolve_operand(x.term.args[1])) for x, w in adds], [(x[1], x[2]) for x in subs]), construct='take-size-slot')
    # constructors
    # initial books of the two constructors, evaluated symbolically as linear forms over `max` (the configured max_size) and
    # `L` (the number of objects supplied): however the constructor is written (literals, a shared `PoolInner::new(config,
    # objects)`, ..) from_config must give (size_semaphore, semaphore, size, available) = (max, 0, 0, 0) and From<I> must
    # give (0, L, L, L) with max_size = L
    def lin_eval(an_, body_, op, depth=0):
        """{'max': a, 'L': b, '1': c} or None"""
        if depth > 14:
            return None
        if op.kind == 'const':
            v = str(op.const.get('v', ''))
            try:
                return {'1': int(v.split('_')[0])}
            except ValueError:
                return None
        pl = op.place
        lf = pl.last_field()
        if lf and lf[1] == 'max_size' and lf[0].endswith('PoolConfig'):
            # whose config? one built by PoolConfig::new(x) -> x ; the caller's configuration -> max
            base = Operand({'c': {'l': pl.local, 'pr': [], 'own': []}})
            for s_ in sources(an_, base, deep=False):
                if s_[0] == 'call' and s_[1] == 'deadpool::unmanaged::config::PoolConfig::new':
                    return lin_eval(an_, body_, body_.blocks[s_[2]].term.args[0], depth + 1)
            return {'max': 1}
        if pl.proj and tuple(pl.proj) == ('.0',):
            d0 = an_.single_def(pl.local)
            if d0 and d0[0] == 'stmt' and d0[3].rv.kind == 'bin' and d0[3].rv.binop in ('SubWithOverflow', 'AddWithOverflow'):
                a_ = lin_eval(an_, body_, d0[3].rv.ops[0], depth + 1); b_ = lin_eval(an_, body_, d0[3].rv.ops[1], depth + 1)
                if a_ is None or b_ is None:
                    return None
                sg = -1 if d0[3].rv.binop.startswith('Sub') else 1
                return {k: a_.get(k, 0) + sg * b_.get(k, 0) for k in set(a_) | set(b_)}
            return None
        if pl.proj:
            return None
        d = an_.single_def(pl.local)
        if d is None:
            return None
        if d[0] == 'stmt':
            rv = d[3].rv
            if rv.kind in ('use', 'cast'):
                return lin_eval(an_, body_, rv.ops[0], depth + 1)
            if rv.kind == 'bin' and rv.binop in ('Sub', 'Add'):
                a_ = lin_eval(an_, body_, rv.ops[0], depth + 1); b_ = lin_eval(an_, body_, rv.ops[1], depth + 1)
                if a_ is None or b_ is None:
                    return None
                sg = -1 if rv.binop == 'Sub' else 1
                return {k: a_.get(k, 0) + sg * b_.get(k, 0) for k in set(a_) | set(b_)}
            return None
        tt = d[3]
        names = tt.callee_names()
        if any(n.endswith('Vec::len') or n.endswith('::len') and 'Vec' in n for n in names):
            vs = sources(an_, tt.args[0], deep=True)
            if any(s_[0] == 'call' and ('collect' in s_[1] or 'into_iter' in s_[1]) for s_ in vs):
                return {'L': 1}
            if any(s_[0] == 'call' and (s_[1].endswith('Vec::with_capacity') or s_[1].endswith('Vec::new')) for s_ in vs):
                return {'1': 0}
            return None
        if any(n.split('::')[-1] in ('try_into', 'try_from', 'unwrap', 'expect', 'into', 'from', 'unwrap_or_default') for n in names) and tt.args:
            return lin_eval(an_, body_, tt.args[0], depth + 1)
        return None

    def norm(v):
        return None if v is None else {k: c for k, c in v.items() if c != 0}

    def ctor_books(body_):
        an_ = prog.an(body_)
        aggs_ = [s for x in body_.blocks for s in x.stmts if s.kind == 'assign' and s.rv.kind == 'agg' and s.rv.j.get('adt') == r.INNER]
        if len(aggs_) != 1:
            return None, None
        f_ = dict(zip(aggs_[0].rv.j['fields'], aggs_[0].rv.ops))
        def through(op, pat):
            src = [s for s in sources(an_, op) if s[0] == 'call' and pat(s[1])]
            if len(src) != 1:
                return None
            return norm(lin_eval(an_, body_, body_.blocks[src[0][2]].term.args[0]))
        sem_new = lambda n_: n_ == 'tokio::sync::Semaphore::new'
        atom_new = lambda n_: n_.endswith('::new') and 'atomic' in n_
        cfg = None
        csrc = [s for s in sources(an_, f_[r.CONFIG]) if s[0] == 'call' and s[1] == 'deadpool::unmanaged::config::PoolConfig::new']
        if len(csrc) == 1:
            cfg = norm(lin_eval(an_, body_, body_.blocks[csrc[0][2]].term.args[0]))
        return aggs_[0], {'SIZESEM': through(f_[r.SIZESEM], sem_new), 'SEM': through(f_[r.SEM], sem_new), 'size': through(f_[r.SIZE], atom_new),
                          'available': through(f_[r.AVAIL], atom_new), 'max_size': cfg, '_fields': f_}

    fc = r.FROM_CONFIG
    ctx.saw(fc)
    agg0, vals = ctor_books(fc)
    if agg0 is not None:
        show = {k: v for k, v in vals.items() if k != '_fields'}
        ok = vals['SIZESEM'] == {'max': 1} and vals['SEM'] == {} and vals['size'] == {} and vals['available'] == {}
        ctx.ob('R05.4', 'from_config: size semaphore = max_size, object semaphore 0, counters 0', ok, ctx.where(fc, agg0.line), str(show), construct='init:from_config', sites=[str(show)])
    else:
        ctx.undecide('R05.4', 'from_config: PoolInner aggregate not found')
    fi = r.FROM_ITER
    ian = prog.an(fi)
    ctx.saw(fi)
    agg1, vals = ctor_books(fi)
    if agg1 is not None:
        f = vals['_fields']
        show = {k: v for k, v in vals.items() if k != '_fields'}
        ok = vals['SIZESEM'] == {} and vals['SEM'] == {'L': 1} and vals['size'] == {'L': 1} and vals['available'] == {'L': 1} and vals['max_size'] == {'L': 1}
        ctx.ob('R05.4', 'From<iterator>: the same length feeds max_size, size, available and the object semaphore; no free size permits', ok,
               ctx.where(fi, agg1.line), str(show), construct='init:from_iter')
        agg = [agg1]
        qsrc = sources(ian, f[r.QUEUE])
        ctx.ob('R05.4', 'From<iterator>: every element of the iterator is queued', any(s[0] == 'call' and 'collect' in s[1] for s in qsrc), ctx.where(fi, agg[0].line), '', construct='init:from_iter-queue')
    else:
        ctx.undecide('R05.4', 'From<I>: PoolInner aggregate not found')

    from .rules_C12 import publish_guard
    publish_guard(ctx, r, 'R05.8')

    # ---- R05.5 result mapping of add / try_add ------------------------------------------------------
    for b in (r.ADD, r.TRY_ADD):
        an = prog.an(b)
        errs = []
        for blk in b.blocks:
            if blk.cleanup:
                continue
            for s in blk.stmts:
                if s.kind == 'assign' and s.rv.kind == 'agg' and s.rv.j['ak'] == 'tuple' and len(s.rv.ops) == 2:
                    a = sources(an, s.rv.ops[0]); e = sources(an, s.rv.ops[1])
                    has_obj = any(x[0] in ('arg', 'upvar') and x[1].startswith('object') for x in a)
                    ev = [x[1].split('::')[-1] for x in e if x[0] == 'agg' and 'PoolError' in x[1]]
                    if ev:
                        errs.append((blk, s, has_obj, ev[0]))
        for blk, s, has_obj, ev in errs:
            ctx.ob('R05.5', 'a refused add hands the object back', has_obj, ctx.where(b, s.line), 'error tuple without the object', construct='add-err-object:' + b.name)
        if b is r.TRY_ADD:
            sw = [x for x in b.blocks if x.term.kind == 'switch' and x.term.j.get('adt') == 'tokio::sync::TryAcquireError']
            for x in sw:
                arms = dict(x.term.switch_arms())
                for lab, want in (('NoPermits', 'Timeout'), ('Closed', 'Closed')):
                    if lab not in arms:
                        continue
                    others = [t for l2, t in arms.items() if l2 != lab and t != arms[lab]]
                    reach = an.reach([arms[lab]], ('normal',), avoid=others)
                    # the error value built on this arm only (the tuple around it may be built after the arms have joined)
                    made = sorted({s2.rv.j['variant'] for y in reach if not any(y in an.reach([o], ('normal',), avoid=[arms[lab]]) for o in others)
                                   for s2 in b.blocks[y].stmts if s2.kind == 'assign' and s2.rv.kind == 'agg' and s2.rv.j.get('ak') == 'adt' and 'PoolError' in s2.rv.j.get('adt', '')})
                    ctx.ob('R05.5', 'try_add: %s maps to %s' % (lab, want), made == [want], ctx.where(b, x.term.line), 'constructs %s' % made, construct='try_add-map:' + lab)
            ctx.floor('R05.5', 'TryAcquireError switches in try_add', len(sw), 1)
        else:
            made = sorted({ev for blk, s, ho, ev in errs})
            ctx.ob('R05.5', 'add: acquisition error maps to Closed', made == ['Closed'], ctx.where(b), 'constructs %s' % made, construct='add-map')

    # ---- R05.6 counter pairing --------------------------------------------------------------------------
    table = []
    for b in bodies:
        for fld, nm in ((r.SIZE, 'size'), (r.AVAIL, 'available')):
            for blk, op, amt in r.atomic_calls(b, fld):
                if op in ('fetch_add', 'fetch_sub', 'store', 'swap'):
                    table.append((b.name, nm, op, 'len' if 'len' in amt else amt))
    got = sorted(table)
    gg = r.GETGUARD
    exp = sorted([
        (r.ADD_HELPER.name, 'size', 'fetch_add', '1_usize'), (r.TAKE.name, 'size', 'fetch_sub', '1_usize'), (r.CLEAR.name, 'size', 'fetch_sub', 'len'),
        (r.ADD_HELPER.name, 'available', 'fetch_add', '1_isize'), (r.OBJ_DROP.name, 'available', 'fetch_add', '1_isize'), (r.CLEAR.name, 'available', 'fetch_sub', 'len'),
    ])
    # the up-front decrement of the in-flight guard may sit in the guard's constructor or (after normalisation) in the getters
    inflight = {(r.TRY_GET.name, 'available', 'fetch_sub', '1_isize'), (r.TIMEOUT_GET.name, 'available', 'fetch_sub', '1_isize')}
    extra = [x for x in got if x not in exp and x not in inflight and not (gg and strip_generics(gg) in x[0])]
    missing = [x for x in exp if x not in got]
    ctx.ob('R05.6', 'size / available are updated exactly next to the queue operation they describe', not extra and not missing, '',
           'unexpected %s, missing %s' % (extra, missing), construct='counter-table', sites=[str(x) for x in got])
    # pairing inside each function: the counter update and the queue operation are on the same paths
    for b, fld, qm in ((r.ADD_HELPER, r.AVAIL, 'push'), (r.OBJ_DROP, r.AVAIL, 'push'), (r.ADD_HELPER, r.SIZE, 'push')):
        an = prog.an(b)
        q = [x for x, m in r.queue_calls(b) if m == qm]
        u = [x for x, op, amt in r.atomic_calls(b, fld)]
        ok = len(q) == 1 and len(u) == 1 and (an.dominates(q[0].idx, u[0].idx) or an.dominates(u[0].idx, q[0].idx))
        ctx.ob('R05.6', 'counter update paired with the %s' % qm, ok, ctx.where(b), '', construct='counter-pair:%s:%s' % (b.name, fld))

    # ---- R05.7 waiting is observable -------------------------------------------------------------------------
    for b in (r.TRY_GET, r.TIMEOUT_GET):
        an = prog.an(b)
        acqs = [x for x, w in r.sem_calls(b, 'try_acquire') + r.sem_calls(b, 'acquire')]
        # a decrement of available that dominates every acquisition: directly or through a local callee taking &available
        decs = []
        for blk in b.blocks:
            t = blk.term
            if t.kind != 'call' or blk.cleanup:
                continue
            if any(x[0].idx == blk.idx and x[1] == 'fetch_sub' for x in r.atomic_calls(b, r.AVAIL)):
                decs.append(blk)
            elif t.rcallee in prog.bodies and t.args and any(s[0] == 'field' and s[1] == '%s.%s' % (r.INNER, r.AVAIL) for a in t.args for s in sources(an, a)):
                cb = prog.bodies[t.rcallee]
                if any(any(n.endswith('::fetch_sub') for n in x.term.callee_names()) for x in cb.blocks if x.term.kind == 'call'):
                    decs.append(blk)
        early = [d for d in decs if all(an.dominates(d.idx, a.idx) for a in acqs)]
        ctx.ob('R05.7', 'available is decremented before the caller starts waiting', bool(early) and bool(acqs), ctx.where(b),
               'available is only decremented after a permit was obtained: it can never become negative and status().waiting is always 0' if not early else '',
               construct='waiting-unobservable', sites=[ctx.where(b, d.term.line) for d in early])
        if early and r.GETGUARD:
            # the undo guard is held across every suspension point and on every error exit; disarmed only after the pop
            for y in b.yields():
                held = held_locals(an, y.idx, r.GETGUARD)
                ctx.ob('R05.7', 'undo guard held across suspension point', bool(held), ctx.where(b, y.term.line),
                       'a cancelled get() would leave available decremented', construct='getguard-yield:' + b.name)
            for bb, cls, det in an.ret_assignments():
                if cls in ('err', 'residual'):
                    held = held_locals(an, bb, r.GETGUARD)
                    ctx.ob('R05.7', 'undo guard live on error exit', bool(held), ctx.where(b, b.blocks[bb].term.line), '', construct='getguard-err:' + b.name)
            dis = [x for x in b.blocks if x.term.kind == 'call' and not x.cleanup and x.term.args and x.term.args[0].kind == 'move' and
                   adt_of(b.locals[x.term.args[0].place.local]['ty']) == r.GETGUARD and not b.locals[x.term.args[0].place.local]['ty'].startswith('&')]
            pops = [x for x, m in r.queue_calls(b) if m == 'pop']
            for d in dis:
                after = an.reach_after(d.idx, ('normal',))
                bad = [b.blocks[x].term.line for x in after if b.blocks[x].term.kind == 'yield'] + \
                      [b.blocks[bb].term.line for bb, cls, det in an.ret_assignments() if bb in after and cls in ('err', 'residual')]
                ctx.ob('R05.7', 'undo guard disarmed only when the get has succeeded', not bad and any(an.dominates(p.idx, d.idx) for p in pops), ctx.where(b, d.term.line), str(bad), construct='getguard-disarm:' + b.name)
    if r.GETGUARD:
        gd = [x for x in prog.bodies.values() if x.j.get('impl_trait') == 'std::ops::Drop' and adt_of(x.j.get('impl_self', '')) == r.GETGUARD]
        gn = [x for x in prog.bodies.values() if x.name.startswith(strip_generics(r.GETGUARD) + '::')]
        subs = [(x.name, strip_generics(list(blk.term.callee_names())[0]).split('::')[-1], prog.an(x).resolve_operand(blk.term.args[1])) for x in gn + gd for blk in x.blocks
                if blk.term.kind == 'call' and not blk.cleanup and any('atomic' in n_ and n_.split('::')[-1] in ('fetch_add', 'fetch_sub') for n_ in blk.term.callee_names())]
        # the -1 may have been inlined into the getters (normal form)
        for gb in (r.TRY_GET, r.TIMEOUT_GET):
            for blk, op_, amt_ in r.atomic_calls(gb, r.AVAIL):
                if op_ == 'fetch_sub' and not any(n_ == gb.name for n_, o, a in subs):
                    subs.append((gb.name, op_, amt_))
        ops = sorted({(o, a) for _, o, a in subs})
        if gd:
            gan = prog.an(gd[0])
            fa_ = [blk for blk in gd[0].blocks if blk.term.kind == 'call' and not blk.cleanup and any(n_.endswith('::fetch_add') for n_ in blk.term.callee_names())]
            skip = armed_flag_skips(prog, r, gd[0], fa_)
            esc = gan.reach([0], ('normal',), avoid=[x.idx for x in fa_] + skip)
            ctx.ob('R05.7', 'the guard restores available on every path of its Drop', bool(fa_) and not any(e in esc for e in gan.exits()['return']), ctx.where(gd[0]),
                   'the +1 in Drop is conditional: a get that ends without an object can leave available decremented', construct='getguard-drop-conditional')
        ctx.ob('R05.7', 'the guard undoes exactly what it did (-1 on creation, +1 on drop)', ops == [('fetch_add', '1_isize'), ('fetch_sub', '1_isize')] and
               any(n_ == gd[0].name and o == 'fetch_add' for n_, o, a in subs) if gd else False, '', str(subs), construct='getguard-symmetry')

    # ---- R05.5 (cont.) a refusal with Timeout is the size semaphore's answer, nothing else's (shared with C12) --------
    from .rules_C12 import timeout_only_from_semaphore
    timeout_only_from_semaphore(ctx, r, 'R05.5', (r.TRY_ADD, r.ADD), floor=1)

    # ---- R05.8 status(): which quantity, with which sign, reaches which field (sign-domain abstract interpretation) -----
    from . import signeval
    st = r.STATUS
    ctx.saw(st)
    san = prog.an(st)
    def classify_field(p):
        lf = p.last_field()
        if lf and lf[1] == 'max_size' and lf[0].endswith('PoolConfig'):
            return ('in', 'max_size')
        return None
    def classify_call(t, env):
        names = t.callee_names()
        for fld, v in ((r.SIZE, ('in', 'size')), (r.AVAIL, ('a', 1))):
            if any(x[0].term is t for x in r.atomic_calls(st, fld)) and any(n.endswith('::load') for n in names):
                return v
        a0 = None
        if t.args and t.args[0].kind != 'const' and not t.args[0].place.proj:
            a0 = env.get(t.args[0].place.local)
        meth = sorted(names)[0].split('::')[-1] if names else ''
        if meth in ('try_from', 'try_into') and a0 is not None and a0[0] == 'a':
            return ('tryfrom', a0)
        if meth in ('unwrap_or', 'unwrap_or_default') and a0 is not None and a0[0] == 'tryfrom':
            inner = a0[1]
            other = ('c', 0)
            if meth == 'unwrap_or' and len(t.args) > 1 and t.args[1].kind == 'const':
                other = ('c', int(str(t.args[1].const.get('v', '0')).split('_')[0]))
            return inner if sign_now[0] * inner[1] >= 0 else other
        if meth in ('max', 'min') and a0 is not None and a0[0] == 'a' and len(t.args) > 1 and t.args[1].kind == 'const':
            c_ = int(str(t.args[1].const.get('v', '0')).split('_')[0])
            s_ = sign_now[0] * a0[1]
            if c_ == 0:
                return (a0 if s_ > 0 else ('c', 0)) if meth == 'max' else (a0 if s_ < 0 else ('c', 0))
        if meth in ('unsigned_abs', 'abs', 'wrapping_abs') and a0 is not None and a0[0] == 'a':
            return ('a', a0[1] if sign_now[0] * a0[1] >= 0 else -a0[1])
        if meth in ('wrapping_neg', 'saturating_neg', 'neg') and a0 is not None and a0[0] == 'a':
            return ('a', -a0[1])
        if meth in ('deref',) or 'Ordering' in ''.join(names):
            return ('k', 'plumbing')
        return None
    sign_now = [0]
    want = {1: {'available': ('a', 1), 'waiting': ('c', 0)}, -1: {'available': ('c', 0), 'waiting': ('a', -1)}, 0: {'available': ('c', 0), 'waiting': ('c', 0)}}
    for sg in (1, -1, 0):
        sign_now[0] = sg
        label = {1: 'idle objects (available > 0)', -1: 'callers waiting (available < 0)', 0: 'neither (available == 0)'}[sg]
        try:
            out = signeval.run(st, san, sg, classify_call, classify_field)
        except signeval.Unknown as e:
            ctx.undecide('R05.8', 'status(): cannot evaluate the case %s: %s' % (label, e)); continue
        if any(out.get(k) is None for k in ('max_size', 'size', 'available', 'waiting')):
            # a field computed with an operation the evaluator has no meaning for: no verdict, never an alarm
            ctx.undecide('R05.8', 'status(): field(s) %s computed in a way that is not understood (case %s)' % ([k for k in ('max_size', 'size', 'available', 'waiting') if out.get(k) is None], label)); continue
        def same(v, w):
            if sg == 0 and v is not None and v[0] == 'a':
                v = ('c', 0)
            return v == w
        ok = same(out.get('available'), want[sg]['available']) and same(out.get('waiting'), want[sg]['waiting']) and out.get('size') == ('in', 'size') and out.get('max_size') == ('in', 'max_size')
        ctx.ob('R05.8', 'status() with %s reports max_size, size, available, waiting from the right quantities' % label, ok, ctx.where(st),
               'got %s (a = the available counter)' % {k: out.get(k) for k in ('max_size', 'size', 'available', 'waiting')} if not ok else '', construct='ustatus:%d' % sg, sites=[str(out)])

    # ---- R05.9 conservation on every path of every entry point (effect ledger, dprules/ledger.py) ---------------
    from .ledger_rules import uledger_obligations
    uledger_obligations(ctx, r, 'R05.9')

    ctx.not_decided += ['"add() proceeds as soon as remove or take frees a slot" (tokio wake-up)', 'numeric exactness of status() under concurrency']
    ctx.assumptions += ['tokio Semaphore semantics', 'std Vec / Mutex']


def cleanup_unconditional(ctx, r, rule):
    """whenever an object has been pushed back (return path), every path to the return passes the clearing function or
    the branch on which the pool reported itself open (no further condition may skip the clean-up of a closed pool)"""
    prog = ctx.prog
    if r.CLEAR is None:
        return
    b = r.OBJ_DROP
    an = prog.an(b)
    pushes = [x for x, m in r.queue_calls(b) if m == 'push']
    clears = [x.idx for x in b.blocks if x.term.kind == 'call' and not x.cleanup and x.term.rcallee in prog.bodies and r.CLEAR.path in prog.region([x.term.rcallee])]
    conds = []
    for blk in b.blocks:
        if blk.term.kind == 'switch' and blk.term.j.get('dty') == 'bool':
            src = sources(an, blk.term.discr)
            if any(s[0] == 'call' and (s[1].endswith('is_closed') or s[1].endswith('try_acquire_many')) for s in src):
                conds.append(blk)
    # helpers that test is_closed internally and clear (e.g. a kept clean_up function) count as the clean-up itself
    falses = [dict(x.term.switch_arms())['false'] for x in conds]
    for p_ in pushes:
        esc = an.reach_after(p_.idx, ('normal',), avoid=clears + falses)
        okc = bool(clears) and not any(e in esc for e in an.exits()['return'])
        ctx.ob(rule, 'a closed pool is always cleared when an object comes back (no further condition)', okc, ctx.where(b, p_.term.line),
               'after the push a path reaches the end of the return path without clearing and without having found the pool open: an object returned to a closed pool can stay in it'
               if not okc else '', construct='cleanup-conditional:' + b.name)

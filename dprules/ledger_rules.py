"""Obligations derived from the effect-ledger analysis (ledger.py): every exit of every entry point of the managed
pool balances the books on the components a property is about."""
from .ledger import Ledger, UnmanagedLedger, ZERO
from .engine import Undecided

_cache = {}


def callee_witnesses(L, root):
    """for a violation at `root`: the local callees (awaited helpers, closures) that themselves end with a non-zero
    ledger, each with its own witness path - the root's path only says `future of X dropped` / `X completed`"""
    out = []
    for p, (exits, _) in L.results.items():
        if p == root.path:
            continue
        b = L.prog.bodies.get(p)
        if b is None:
            continue
        seen = set()
        for e in exits:
            if any(f in e.flags for f in L.IGNORE_FLAGS) or e.vec == L.ZERO or (e.kind, e.vec) in seen:
                continue
            seen.add((e.kind, e.vec))
            out.append('%s %s with %s along %s' % (b.name.split('::', 2)[-1], {'return': 'returns', 'unwind': 'unwinds', 'cancel': 'is abandoned'}[e.kind], e.vec, ' -> '.join(L.witness(b, e))[:400]))
    return out[:4]
COMP_NAMES = ('capacity (permits + objects out)', 'size (objects the pool counts vs objects that exist)', 'users (getters in flight + objects out)')


def ledger_for(ctx, r):
    key = id(ctx.prog)
    L = _cache.get(key)
    if L is None:
        L = Ledger(ctx.prog, r)
        cand = roots(ctx.prog, r, L)
        for b in cand:
            L.summary(b)
        must = {x.path for x in (r.TIMEOUT_GET, r.OBJ_DROP, r.OBJ_TAKE, r.RESIZE, r.CLOSE, r.RETAIN, r.UNREADY_DROP)}
        # entry points whose call region contains a ledger event (the others trivially balance and are not listed)
        L.roots = [b for b in cand if b.path in must or (set(ctx.prog.region([b.path])) & L.touched)]
        L.n_candidates = len(cand)
        _cache[key] = L
    return L


def roots(prog, r, L):
    """what a user of the crate can run: public functions (the coroutine of an async fn) and Drop impls of the managed module"""
    out = []
    seen = set()
    for b in prog.bodies.values():
        if not L.is_managed(b) or b.kind == 'Closure':
            continue
        if '_serde' in b.path or '::fmt' in b.path:
            continue
        if not (b.j.get('vis') == 'pub' or b.j.get('impl_trait') == 'std::ops::Drop'):
            continue
        co = L.coroutine_of_ctor(b)
        root = co if co is not None else b
        if root.path not in seen:
            seen.add(root.path); out.append(root)
    # role-bound entry points must be among them
    for must in (r.TIMEOUT_GET, r.OBJ_DROP, r.OBJ_TAKE, r.RESIZE, r.CLOSE, r.RETAIN, r.UNREADY_DROP):
        if must.path not in seen:
            seen.add(must.path); out.append(must)
    return sorted(out, key=lambda b: b.path)


def ledger_obligations(ctx, r, rule, comps, only=None, kinds=('return', 'unwind', 'cancel'), what=''):
    """one obligation per (entry point, exit class): every exit state has 0 on the components `comps`"""
    L = ledger_for(ctx, r)
    n = 0
    for b in L.roots:
        if only is not None and b.path not in only:
            continue
        exits, _ = L.results[b.path]
        cs = [c for c in comps if not (c == 0 and b.path in (r.RESIZE.path, r.CLOSE.path)) and not (c == 1 and b.path == r.RETAIN.path)]
        if not cs:
            continue
        for kind in kinds:
            es = [e for e in exits if e.kind == kind and not any(f in e.flags for f in L.IGNORE_FLAGS)]
            if not es:
                continue
            n += 1
            bad = [e for e in es if any(e.vec[c] != 0 for c in cs)]
            detail = ''
            if bad:
                e = bad[0]
                detail = '%s exit with ledger %s (E1 capacity, E2 size, E3 users) along: %s' % (kind, e.vec, ' -> '.join(L.witness(b, e))[:900])
                cw = callee_witnesses(L, b)
                if cw:
                    detail += ' || inside: ' + ' | '.join(cw)
            label = {'return': 'returns', 'unwind': 'unwinds from a panic in user code', 'cancel': 'is abandoned at a suspension point'}[kind]
            ctx.ob(rule, 'books balance when %s %s [%s]' % (b.name.replace('deadpool::managed::', ''), label, ', '.join('E%d' % (c + 1) for c in cs)),
                   not bad, ctx.where(b), detail, construct='ledger:%s:%s' % (b.name, kind), sites=['%d exit states' % len(es)])
    for b, line, msg in L.problems:
        if only is not None and b.path not in only and not any(b.path == x for x in only):
            pass
        if 'drifts without bound' in msg:
            ctx.ob(rule, 'no loop changes the books by a non-zero amount per iteration', False, ctx.where(b, line), msg, construct='ledger-drift:' + b.name)
        else:
            ctx.undecide(rule, 'ledger: %s at %s' % (msg, ctx.where(b, line)))
    # positive control (expected count of violations is zero, so the engine has to show on every run that it can see one):
    # the same analysis made blind to `permit.forget()` must find the getter's books unbalanced
    if not getattr(L, 'control_done', False):
        C = Ledger(ctx.prog, r)
        C.blind = 'forget'
        C.summary(r.TIMEOUT_GET)
        ex, _ = C.results[r.TIMEOUT_GET.path]
        L.control_ok = any(e.kind == 'return' and e.vec[0] != 0 for e in ex)
        L.control_done = True
    ctx.ob(rule, 'positive control: with permit.forget() hidden from the model the getter does not balance', L.control_ok, ctx.where(r.TIMEOUT_GET),
           'the ledger engine did not notice a missing event: its verdicts are void' if not L.control_ok else '', construct='ledger-positive-control')
    ctx.count('ledger_states', L.n_states)
    ctx.count('ledger_events', L.n_events)
    ctx.count('ledger_user_unwind_edges', L.n_user_unwinds)
    ctx.count('ledger_cancel_edges', L.n_cancel_edges)
    ctx.count('ledger_entry_points', len(L.roots))
    ctx.floor(rule, 'ledger: entry point exit classes examined', n, 1)
    ctx.floor(rule, 'ledger: events recognised', L.n_events, 35)
    ctx.floor(rule, 'ledger: unwind edges of user code followed', L.n_user_unwinds, 10)
    ctx.floor(rule, 'ledger: cancellation edges followed', L.n_cancel_edges, 10)
    return L


_ucache = {}


def uledger_obligations(ctx, r, rule):
    """the same for the unmanaged pool (four expressions, see UnmanagedLedger)"""
    prog = ctx.prog
    L = _ucache.get(id(prog))
    if L is None:
        L = UnmanagedLedger(prog, r)
        cand = []
        seen = set()
        for b in prog.bodies.values():
            if not L.is_local(b) or b.kind == 'Closure' or '_serde' in b.path or '::fmt' in b.path:
                continue
            if not (b.j.get('vis') == 'pub' or b.j.get('impl_trait') == 'std::ops::Drop'):
                continue
            root = L.coroutine_of_ctor(b) or b
            if root.path not in seen:
                seen.add(root.path); cand.append(root)
        for must in (r.TRY_GET, r.TIMEOUT_GET, r.ADD, r.TRY_ADD, r.TAKE, r.OBJ_DROP):
            if must.path not in seen:
                seen.add(must.path); cand.append(must)
        for b in cand:
            L.summary(b)
        mustp = {x.path for x in (r.TRY_GET, r.TIMEOUT_GET, r.ADD, r.TRY_ADD, r.TAKE, r.OBJ_DROP)}
        L.roots = sorted([b for b in cand if b.path in mustp or (set(prog.region([b.path])) & L.touched)], key=lambda b: b.path)
        _ucache[id(prog)] = L
    n = 0
    names = ('U1 object permits vs queue', 'U2 size vs objects', 'U3 size slots', 'U4 available')
    for b in L.roots:
        exits, _ = L.results[b.path]
        for kind in ('return', 'unwind', 'cancel'):
            es = [e for e in exits if e.kind == kind and not any(f in e.flags for f in L.IGNORE_FLAGS)]
            if not es:
                continue
            n += 1
            bad = [e for e in es if e.vec != L.ZERO]
            detail = ''
            if bad:
                e = bad[0]
                detail = '%s exit with ledger %s (%s) along: %s' % (kind, e.vec, '; '.join(names), ' -> '.join(L.witness(b, e))[:900])
                cw = callee_witnesses(L, b)
                if cw:
                    detail += ' || inside: ' + ' | '.join(cw)
            label = {'return': 'returns', 'unwind': 'unwinds from a panic in user code', 'cancel': 'is abandoned at a suspension point'}[kind]
            ctx.ob(rule, 'books balance when %s %s (open pool)' % (b.name.replace('deadpool::unmanaged::', ''), label), not bad, ctx.where(b), detail,
                   construct='uledger:%s:%s' % (b.name, kind), sites=['%d exit states' % len(es)])
    for b, line, msg in L.problems:
        if 'drifts without bound' in msg:
            ctx.ob(rule, 'no loop changes the books by a non-zero amount per iteration', False, ctx.where(b, line), msg, construct='uledger-drift:' + b.name)
        else:
            ctx.undecide(rule, 'ledger: %s at %s' % (msg, ctx.where(b, line)))
    if not getattr(L, 'control_done', False):
        C = UnmanagedLedger(prog, r)
        C.blind = 'push'
        C.summary(r.OBJ_DROP)
        ex, _ = C.results[r.OBJ_DROP.path]
        L.control_ok = any(e.kind == 'return' and e.vec != C.ZERO and not any(f in e.flags for f in C.IGNORE_FLAGS) for e in ex)
        L.control_done = True
    ctx.ob(rule, 'positive control: with queue.push hidden from the model the return path does not balance', L.control_ok, ctx.where(r.OBJ_DROP),
           'the ledger engine did not notice a missing event: its verdicts are void' if not L.control_ok else '', construct='uledger-positive-control')
    ctx.count('uledger_states', L.n_states)
    ctx.count('uledger_events', L.n_events)
    ctx.count('uledger_cancel_edges', L.n_cancel_edges)
    ctx.count('uledger_entry_points', len(L.roots))
    ctx.floor(rule, 'unmanaged ledger: entry point exit classes examined', n, 8)
    ctx.floor(rule, 'unmanaged ledger: events', L.n_events, 20)
    return L

"""Decision tables by abstract evaluation.

A row fixes the *inputs* of a decision (`timeouts.wait` is None / Some(zero) / Some(non-zero), the runtime is Some / None, ..).
Under a row the code is explored: at every switch the tested value is evaluated abstractly from the row, and only the arm(s)
it allows are followed.  What the value is built from does not matter as long as it is built from the row's inputs with the
operations below - a `match (a, b)`, nested matches, let-else chains, `a.is_some() || b.is_some()`, `a.or(b).is_some()`,
`wait == Some(Duration::ZERO)`, a bool computed early and tested late, a guard on a match arm all explore the same blocks.

Values:  True / False;  'None';  ('Some', payload) with payload 'zero' | 'nonzero' | None (unknown);  ('num', 0) | ('num', 'pos');
None = unknown (both arms are followed).  A local with several definitions has a value only if all definitions *that lie in
the part of the body explored so far* agree - exploration and evaluation are iterated to a fixpoint, so a flag set to `false`
on the arm the row does not take stops counting.
"""
from .facts import Operand, strip_generics
from .analysis import sources


class Eval:
    def __init__(self, an, leaf, depends=None):
        """leaf(operand, origins) -> abstract value or None: called for operands that read an input (a field, a captured
        variable, an argument) - `origins` are the operand's terminal origins"""
        self.an = an
        self.leaf = leaf
        # depends(origins) -> bool: does a value with these (deep) origins depend on the row's inputs at all?  (default: the
        # leaf recognises it).  Used to tell "a test on an input that was not understood" from a test on something else
        self.depends = depends or (lambda origins: False)
        self.live = None
        self._memo = {}
        self.unknown = []          # switches left undecided although their test depends on an input of the row

    # ---- evaluation -----------------------------------------------------------------------------------------
    def operand(self, op, depth=0):
        if op.kind == 'const':
            v = str(op.const.get('v', ''))
            if v in ('true', 'false'):
                return v == 'true'
            if v.endswith('Duration::ZERO'):
                return 'zero'
            if v.split('_')[0].isdigit():
                return ('num', 0) if int(v.split('_')[0]) == 0 else ('num', 'pos')
            return None
        if op.kind not in ('copy', 'move'):
            return None
        p = op.place
        if p.proj and (p.proj[0].startswith('.') or (len(p.proj) >= 2 and p.proj[0].startswith('@') and p.proj[1].startswith('.'))):
            # a part of an aggregate built in this body (`_t.0` with `_t = (a, b)`, the argument tuple of an inlined closure)
            ds = [d for d in self.an.defs(p.local) if self.live is None or d[1] in self.live]
            if ds and all(d[0] == 'stmt' and d[3].rv.kind == 'agg' and d[3].rv.j.get('ak') in ('tuple', 'adt') for d in ds) and len(p.proj) <= 2:
                return self._through_aggregate(op, depth)
        if p.proj and all(x == '*' for x in p.proj) and not (1 <= p.local <= self.an.b.arg_count) and self.an.defs(p.local):
            return self.local(p.local, depth)          # `*r` of a reference built here: the value referred to
        if p.proj or (1 <= p.local <= self.an.b.arg_count):
            # a read of an input
            v = self.leaf(op, sources(self.an, op))
            if v is not None:
                return v
            if p.proj:
                if p.proj[0].startswith('.') or (len(p.proj) >= 2 and p.proj[0].startswith('@') and p.proj[1].startswith('.')):
                    return self._through_aggregate(op, depth)
                return None
        return self.local(p.local, depth)

    def _through_aggregate(self, op, depth):
        """`_t.0` where `_t = (a, b)`: the value of that operand of the aggregate"""
        p = op.place
        sel = p.proj[0][1:] if p.proj[0].startswith('.') else p.proj[1][1:]
        ds = [d for d in self.an.defs(p.local) if self.live is None or d[1] in self.live]
        vals = []
        for d in ds:
            if d[0] == 'stmt' and d[3].rv.kind == 'agg' and d[3].rv.j['ak'] in ('tuple', 'adt'):
                rv = d[3].rv
                names = [str(i) for i in range(len(rv.ops))] if rv.j['ak'] == 'tuple' else rv.j.get('fields', [])
                if sel in names:
                    vals.append(self.operand(rv.ops[names.index(sel)], depth + 1)); continue
            vals.append(None)
        return self._agree(vals)

    @staticmethod
    def _agree(vals):
        if not vals or any(v is None for v in vals):
            return None
        return vals[0] if all(v == vals[0] for v in vals) else None

    def local(self, l, depth=0):
        if depth > 12:
            return None
        key = l
        if key in self._memo:
            return self._memo[key]
        self._memo[key] = None          # cycles evaluate to unknown
        ds = [d for d in self.an.defs(l) if self.live is None or d[1] in self.live]
        vals = [self._def(d, depth + 1) for d in ds]
        v = self._agree(vals)
        self._memo[key] = v
        return v

    def _place_as_operand(self, place):
        return Operand({'c': {'l': place.local, 'pr': list(place.proj), 'own': list(place.own)}})

    def _def(self, d, depth):
        if d[0] == 'stmt':
            rv = d[3].rv
            if rv.kind in ('use', 'cast'):
                return self.operand(rv.ops[0], depth)
            if rv.kind in ('ref', 'copyderef'):
                return self.operand(self._place_as_operand(rv.place), depth)
            if rv.kind == 'un' and rv.binop == 'Not':
                v = self.operand(rv.ops[0], depth)
                return (not v) if isinstance(v, bool) else None
            if rv.kind == 'agg' and rv.j.get('ak') == 'adt' and rv.j.get('adt') == 'std::option::Option':
                if rv.j.get('variant') == 'None':
                    return 'None'
                pv = self.operand(rv.ops[0], depth) if rv.ops else None
                return ('Some', pv if pv in ('zero', 'nonzero') else None)
            if rv.kind == 'bin' and rv.binop in ('Eq', 'Ne', 'Gt', 'Lt', 'Ge', 'Le'):
                a = self.operand(rv.ops[0], depth); b = self.operand(rv.ops[1], depth)
                return self._compare(rv.binop, a, b)
            return None
        t = d[3]
        names = {strip_generics(n) for n in t.callee_names()}
        short = {n.split('::')[-1] for n in names}
        args = t.args
        def isopt(n):
            return 'option::Option' in n
        if any(isopt(n) for n in names) and args:
            a0 = self.operand(args[0], depth)
            if short & {'is_some', 'is_none'}:
                if a0 == 'None':
                    return 'is_none' in short
                if isinstance(a0, tuple) and a0[0] == 'Some':
                    return 'is_some' in short
                return None
            if 'or' in short and len(args) == 2:
                a1 = self.operand(args[1], depth)
                if isinstance(a0, tuple) and a0[0] == 'Some':
                    return a0
                if a0 == 'None':
                    return a1
                if isinstance(a1, tuple) and a1[0] == 'Some':
                    return ('Some', None)
                return None
            if short & {'as_ref', 'as_mut', 'cloned', 'copied', 'clone', 'take', 'as_deref'}:
                return a0
            if short & {'as_slice', 'as_mut_slice'}:
                # the slice view of an Option has one element or none: its emptiness is the Option's absence
                return ('optslice', a0) if a0 == 'None' or (isinstance(a0, tuple) and a0[0] == 'Some') else None
            if any(n.endswith('PartialEq>::eq') or n.endswith('PartialEq::eq') or n.endswith('PartialEq>::ne') or n.endswith('PartialEq::ne') for n in names) and len(args) == 2:
                a1 = self.operand(args[1], depth)
                r = self._opt_eq(a0, a1)
                return r if r is None or not any(n.endswith('::ne') for n in names) else (not r)
        if short & {'is_empty'} and args:
            a0 = self.operand(args[0], depth)
            if isinstance(a0, tuple) and a0[0] == 'optslice':
                return a0[1] == 'None'
        if any(n.startswith('std::time::Duration::') for n in names) and args:
            a0 = self.operand(args[0], depth)
            if 'is_zero' in short and a0 in ('zero', 'nonzero'):
                return a0 == 'zero'
            if short & {'as_nanos', 'as_micros', 'as_millis', 'as_secs', 'subsec_nanos', 'as_secs_f64'} and a0 in ('zero', 'nonzero'):
                # only the total in the finest unit decides zero-ness; a coarser unit is 0 for more values than Duration::ZERO
                return (('num', 0) if a0 == 'zero' else ('num', 'pos')) if 'as_nanos' in short else (('num', 0) if a0 == 'zero' else None)
        if short & {'clone', 'deref', 'into', 'from', 'borrow', 'as_ref'} and len(args) == 1:
            return self.operand(args[0], depth)
        if any(n.endswith('PartialEq>::eq') or n.endswith('PartialEq::eq') for n in names) and len(args) == 2:
            a0 = self.operand(args[0], depth); a1 = self.operand(args[1], depth)
            return self._opt_eq(a0, a1)
        return None

    @staticmethod
    def _opt_eq(a, b):
        if a is None or b is None:
            return None
        if a == 'None' or b == 'None':
            return a == b
        if isinstance(a, tuple) and isinstance(b, tuple) and a[0] == 'Some' and b[0] == 'Some':
            if a[1] is None or b[1] is None:
                return None
            if a[1] == 'zero' and b[1] == 'zero':
                return True
            if {a[1], b[1]} == {'zero', 'nonzero'}:
                return False
            return None
        if a in ('zero', 'nonzero') and b in ('zero', 'nonzero'):
            return True if a == b == 'zero' else (False if a != b else None)
        return None

    @staticmethod
    def _compare(op, a, b):
        if not (isinstance(a, tuple) and isinstance(b, tuple) and a[0] == 'num' and b[0] == 'num'):
            if isinstance(a, bool) and isinstance(b, bool) and op in ('Eq', 'Ne'):
                return (a == b) if op == 'Eq' else (a != b)
            return None
        x, y = a[1], b[1]
        if x == 0 and y == 0:
            return op in ('Eq', 'Ge', 'Le')
        if x == 'pos' and y == 0:
            return op in ('Ne', 'Gt', 'Ge')
        if x == 0 and y == 'pos':
            return op in ('Ne', 'Lt', 'Le')
        return None

    # ---- exploration ----------------------------------------------------------------------------------------
    def decide(self, blk):
        t = blk.term
        if t.kind != 'switch':
            return None
        on = t.j.get('on')
        if on and t.j.get('adt') == 'std::option::Option':
            v = self.operand(Operand({'c': on}))
            lab = 'None' if v == 'None' else ('Some' if isinstance(v, tuple) and v[0] == 'Some' else None)
            if lab:
                return [tgt for l, tgt in t.switch_arms() if l == lab]
            if self.leaf(Operand({'c': on}), sources(self.an, Operand({'c': on}), deep=True)) is not None and blk.idx not in self.unknown:
                self.unknown.append(blk.idx)
            return None
        if t.j.get('dty') == 'bool':
            v = self.operand(t.discr)
            if isinstance(v, bool):
                return [tgt for l, tgt in t.switch_arms() if l == ('true' if v else 'false')]
            if t.discr.kind != 'const' and blk.idx not in self.unknown and \
                    (self.leaf(t.discr, sources(self.an, t.discr, deep=True)) is not None or self.depends(sources(self.an, t.discr, deep=True))):
                self.unknown.append(blk.idx)
        return None

    def explore(self, max_rounds=6):
        """blocks reachable under the row; evaluation restricted to definitions inside the explored part (iterated)"""
        self.live = None
        prev = None
        for _ in range(max_rounds):
            self._memo = {}
            self.unknown = []
            seen = {0}
            work = [0]
            while work:
                x = work.pop()
                blk = self.an.b.blocks[x]
                allowed = self.decide(blk) if blk.term.kind == 'switch' else None
                for s in self.an.succs(x, ('normal',)):
                    if allowed is not None and s not in allowed:
                        continue
                    if s not in seen:
                        seen.add(s); work.append(s)
            if seen == prev:
                break
            prev = seen
            self.live = seen
        return prev

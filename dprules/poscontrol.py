"""Positive controls: the zero-expected predicates must fire on the fixture crate."""
import glob, hashlib, json, os, shutil, subprocess, uuid
from . import extract, facts, analysis, preds

VERIF = os.path.dirname(os.path.dirname(os.path.abspath(__file__)))
FIX = os.path.join(VERIF, 'fixtures', 'poscontrol')


def _facts():
    h = hashlib.sha256()
    for p in (os.path.join(FIX, 'src', 'lib.rs'), os.path.join(FIX, 'Cargo.toml.in'), extract.DRIVER):
        with open(p, 'rb') as f:
            h.update(f.read())
    key = h.hexdigest()[:16]
    out = os.path.join(extract.CACHE, 'poscontrol', key)
    if glob.glob(os.path.join(out, '*.json')):
        return out
    build = os.path.join(extract.CACHE, 'poscontrol_build')
    shutil.rmtree(build, ignore_errors=True)
    os.makedirs(os.path.join(build, 'src'))
    shutil.copy(os.path.join(FIX, 'src', 'lib.rs'), os.path.join(build, 'src', 'lib.rs'))
    shutil.copy(os.path.join(FIX, 'Cargo.toml.in'), os.path.join(build, 'Cargo.toml'))
    lock = os.path.join(extract.REPO, 'Cargo.lock')
    if os.path.exists(lock):
        shutil.copy(lock, os.path.join(build, 'Cargo.lock'))
    os.makedirs(out, exist_ok=True)
    env = dict(os.environ)
    env.update({'LD_LIBRARY_PATH': extract.sysroot_lib(), 'RUSTFLAGS': '-Zmir-opt-level=0 -Awarnings', 'RUSTC_WORKSPACE_WRAPPER': extract.DRIVER,
                'CARGO_TARGET_DIR': os.path.join(extract.CACHE, 'poscontrol_target'), 'CARGO_NET_OFFLINE': 'true', 'DPA_OUT': out, 'DPA_NONCE': uuid.uuid4().hex[:8]})
    fp = os.path.join(extract.CACHE, 'poscontrol_target', 'debug', '.fingerprint')
    if os.path.isdir(fp):
        for d in os.listdir(fp):
            if d.startswith('dp-poscontrol') or d.startswith('dp_poscontrol'):
                shutil.rmtree(os.path.join(fp, d), ignore_errors=True)
    r = subprocess.run(['cargo', '+nightly', 'check', '--offline'], cwd=build, env=env, capture_output=True, text=True)
    if r.returncode != 0 or not glob.glob(os.path.join(out, '*.json')):
        shutil.rmtree(out, ignore_errors=True)
        raise extract.ExtractError('positive-control fixture did not build: ' + r.stderr[-400:])
    return out


def run():
    """returns dict control -> bool (fired)"""
    d = _facts()
    crates = facts.load_dir(d)
    prog = analysis.Prog(crates)
    def B(n):
        b = prog.body('dp_poscontrol::' + n) or prog.body('dp_poscontrol::%s::{closure#0}' % n)
        return b
    res = {}
    def calls(b):
        return [blk for blk in b.blocks if blk.term.kind == 'call' and not blk.cleanup]
    for n in ('pc_spawn_task', 'pc_spawn_thread', 'pc_spawn_blocking'):
        cands = [x for x in (B(n), B(n + '::{closure#0}')) if x is not None]
        res['spawn:' + n] = any(preds.spawn_names(blk.term.callee_names()) for b in cands for blk in calls(b))
    for n in ('pc_option_unwrap', 'pc_result_expect', 'pc_explicit_panic'):
        b = B(n)
        res['panic:' + n] = b is not None and any(preds.panic_call_names(blk.term.callee_names()) for blk in calls(b))
    for n in ('pc_index', 'pc_overflow'):
        b = B(n)
        res['assert:' + n] = b is not None and any(preds.is_panic_assert(blk.term) for blk in b.blocks if not blk.cleanup)
    b = B('pc_await_under_lock::{closure#0}')
    ok = False
    if b is not None:
        an = prog.an(b)
        gl = preds.guard_locals(b)
        for y in b.yields():
            st = an.state_at_term(y.idx)
            ok = ok or (st is not None and any((st[1] >> g) & 1 for g in gl))
    res['await-under-lock'] = ok
    b = B('pc_relock')
    ok = False
    if b is not None:
        an = prog.an(b)
        gl = preds.guard_locals(b)
        for blk in calls(b):
            if 'std::sync::Mutex::lock' in blk.term.callee_names():
                st = an.state_at_term(blk.idx)
                ok = ok or (st is not None and any((st[1] >> g) & 1 for g in gl))
    res['relock'] = ok
    b = B('pc_leak_permit')
    ok = False
    if b is not None:
        for blk in calls(b):
            t = blk.term
            if 'std::mem::forget' in t.callee_names() and t.args and t.args[0].kind == 'move' and 'tokio::sync::SemaphorePermit' in b.locals[t.args[0].place.local]['parts']['adts']:
                ok = True
    res['permit-leak'] = ok
    b = B('pc_clone')
    res['clone'] = b is not None and any(any(n.endswith('Clone::clone') for n in blk.term.callee_names()) for blk in calls(b))
    return res


def assert_controls(ctx, wanted):
    """record the positive controls for the zero-expected rules of a property; a silent control = machinery broken"""
    try:
        res = run()
    except extract.ExtractError as e:
        ctx.undecide('POS', str(e))
        return
    for k in wanted:
        hits = {c: v for c, v in res.items() if c.startswith(k)}
        if not hits or not all(hits.values()):
            ctx.undecide('POS', 'positive control `%s` did not fire (%s): the zero-expected rule cannot be trusted' % (k, hits))
        else:
            ctx.counters['poscontrol:' + k] = len(hits)

"""C01 - managed pool never has more than max_size live objects.

Decides the permit/size ledger on every CFG path (normal, unwind, cancel)."""
from .mcommon import *
from .roles import PERMIT_ADT, classify_write
from .facts import strip_generics

TECHNIQUE = 'MIR event-CFG rules: typestate of the SemaphorePermit local (must-init dataflow), dominance, who-may-call and field-write inventory, guarding-comparison normalisation'
LEVEL_TEXT = 'static analysis of every path of the getter / return / take / resize bodies'
EXPLANATION = ('Every rule instance is evaluated on the mir_built CFG of the current tree (normal, unwind and '
               'coroutine-drop edges). Decided: a SemaphorePermit is held at every pop of the idle queue, at every '
               'execution of the creator and at the size increment; the permit is consumed only by forget() on the '
               'success path after which nothing can fail or suspend; add_permits on the pool semaphore happens only in '
               'the return/take helpers (amount 1, once per path, on the normalised branch size<=max under the same lock) '
               'and in the grow branch of resize; size += 1 has one site, after the create completed, with the guard '
               'object already constructed; ObjectInner is constructed at one site; the initial ledger is consistent.')

ALLOWED_AFTER_FORGET = {
    'std::sync::Arc::downgrade', 'std::convert::Into::into', 'std::convert::From::from',
    'std::mem::forget', 'std::mem::drop',
}


def run(ctx, with_resize=True):
    r = roles(ctx)
    prog = ctx.prog
    root = r.TIMEOUT_GET
    an = prog.an(root)
    ctx.saw(root)
    getter = [prog.bodies[p] for p in r.GETTER]
    for b in getter:
        ctx.saw(b)
    root_paths = {root.path}

    def permit_held(body, bb):
        return bool(held_locals(prog.an(body), bb, PERMIT_ADT))

    # ---- R01.1 acquisition dominates every pop and every create -----------
    pops = []
    for b in getter:
        ban = prog.an(b)
        for blk, m in queue_calls(r, b, ban):
            if m in ('pop_front', 'pop_back', 'pop', 'remove', 'swap_remove_back', 'swap_remove_front', 'drain'):
                pops.append((b, blk, m))
    ctx.floor('R01.1', 'pops of the idle queue in the getter', len(pops), 2)
    for b, blk, m in pops:
        ok = permit_held(b, blk.idx) or holds_in_context(prog, b, permit_held, root_paths)
        ctx.ob('R01.1', 'permit held at %s of idle queue' % m, ok, ctx.where(b, blk.term.line),
               'no definitely-initialised SemaphorePermit local when the idle queue is popped' if not ok else '',
               construct='getter:pop', sites=[ctx.where(b, blk.term.line)])
    creates = []
    for b in getter:
        for blk in manager_calls(b, MANAGER_CREATE):
            creates.append((b, blk))
    ctx.floor('R01.1', 'Manager::create call sites in the getter', len(creates), 1)
    for b, blk in creates:
        ok = permit_held(b, blk.idx) or holds_in_context(prog, b, permit_held, root_paths)
        ctx.ob('R01.1', 'permit held when Manager::create is called', ok, ctx.where(b, blk.term.line),
               'Manager::create can run without a held SemaphorePermit' if not ok else '',
               construct='getter:create', sites=[ctx.where(b, blk.term.line)])
    # create is called nowhere else in the crate
    for b in managed_bodies(prog):
        if b.path in r.GETTER:
            continue
        for blk in manager_calls(b, MANAGER_CREATE):
            ctx.ob('R01.1', 'Manager::create outside the getter', False, ctx.where(b, blk.term.line),
                   'objects may only be created by a get() call that holds a permit', construct='create-outside-getter:' + b.name)

    # ---- R01.2 the permit is consumed only by forget(), on the success path ----
    forgets = []
    for b in managed_bodies(prog):
        for blk in calls_named(b, ['tokio::sync::SemaphorePermit::forget']):
            forgets.append((b, blk))
    g_forgets = [(b, blk) for b, blk in forgets if b.path in r.GETTER]
    ctx.floor('R01.2', 'SemaphorePermit::forget sites in the getter', len(g_forgets), 1)
    oks = [x for x in an.ret_assignments() if x[1] == 'ok']
    ctx.floor('R01.2', 'success return assignments of timeout_get', len(oks), 1)
    for b, blk in g_forgets:
        ban = prog.an(b)
        after = ban.reach_after(blk.idx, ('normal', 'unwind', 'cancel'))
        bad = []
        for x in sorted(after):
            t = b.blocks[x].term
            if b.blocks[x].cleanup:
                continue
            if t.kind == 'yield':
                bad.append(('suspension point', t.line))
            if t.kind == 'call':
                names = t.callee_names()
                if not (names & ALLOWED_AFTER_FORGET) and not any(n.startswith('deadpool::managed::dropguard::') for n in names) \
                        and not any(n.endswith('::disarm') for n in names):
                    bad.append(('call ' + '/'.join(sorted(names)), t.line))
        for bb2, cls, det in ban.ret_assignments():
            if bb2 in after and cls in ('err', 'residual'):
                bad.append(('error return (%s)' % det, b.blocks[bb2].term.line))
        ctx.ob('R01.2', 'nothing fallible or suspending after permit.forget()', not bad, ctx.where(b, blk.term.line),
               'after forget(): ' + '; '.join('%s at line %s' % x for x in bad[:4]) if bad else '',
               construct='getter:forget-then-fallible', sites=[ctx.where(b, blk.term.line)])
        ctx.ob('R01.2', 'forget() not inside a loop', not in_cycle(ban, blk.idx), ctx.where(b, blk.term.line),
               'forget() can execute more than once per call', construct='getter:forget-in-loop')
    # the permit handed *by value* to a local function of the getter (`try_create(timeouts, permit)`): whether that function
    # forgets it exactly on its success exits and lets it drop on the others is a summary this rule does not compute - the
    # clauses about where the getter itself forgets / holds the permit are then not decided (no alarm); the ledger
    # (R01.9) still follows the permit through the call
    handed = []
    for b in managed_bodies(prog):
        if b.path not in r.GETTER:
            continue
        for blk in b.blocks:
            t = blk.term
            if t.kind == 'call' and not blk.cleanup and t.rcallee in prog.bodies and (t.rcallee.startswith('deadpool::managed') or t.rcallee.startswith('<deadpool::managed')) and \
                    any(a.kind == 'move' and PERMIT_ADT in b.locals[a.place.local]['parts']['adts'] and '*' not in a.place.proj for a in t.args) and \
                    not (t.dest is not None and PERMIT_ADT in _ty_adts(b, t.dest)) and not (t.callee_names() & {'tokio::sync::SemaphorePermit::forget', 'std::mem::drop'}):
                handed.append((b, blk, t.rcallee))
    if handed:
        ctx.undecide('R01.2', 'the permit is handed by value to %s: where it is forgotten / held is decided inside that function - not followed' % handed[0][2])
    # every success exit passes through exactly the forget site(s)
    fblocks = [blk.idx for b, blk in g_forgets if b.path == root.path]
    for bb, cls, det in (oks if not handed else []):
        reach_wo = an.reach([0], ('normal',), avoid=fblocks)
        ok = bb not in reach_wo and bool(fblocks)
        ctx.ob('R01.2', 'success exit passes permit.forget()', ok, ctx.where(root, root.blocks[bb].term.line),
               'an Ok(Object) return is reachable without forgetting the permit (capacity would grow by one per call)' if not ok else '',
               construct='getter:ok-without-forget')
    # unknown consumers of a permit-carrying value (leaks)
    n_cons = 0
    for b in managed_bodies(prog):
        for blk in b.blocks:
            t = blk.term
            if t.kind != 'call' or blk.cleanup:
                continue
            carries = False
            for a in t.args:
                if a.kind == 'move' and PERMIT_ADT in b.locals[a.place.local]['parts']['adts'] and '*' not in a.place.proj:
                    carries = True
            if not carries:
                continue
            n_cons += 1
            names = t.callee_names()
            dest_has = t.dest is not None and PERMIT_ADT in _ty_adts(b, t.dest)
            if dest_has:
                continue  # carrier (map_err, branch, timeout, poll ...): the permit is in the result
            if names & {'tokio::sync::SemaphorePermit::forget', 'std::mem::drop'}:
                continue
            if any(n.endswith('FromResidual::from_residual') for n in names):
                continue
            if any(blk is hb for _, hb, _ in handed):
                continue
            ctx.ob('R01.2', 'permit-carrying value consumed by unknown callee', False, ctx.where(b, t.line),
                   'callee %s takes a value containing a SemaphorePermit and does not return it (leak?)' % '/'.join(sorted(names)),
                   construct='permit-consumer:' + '/'.join(sorted(names)))
    ctx.count('permit_consumer_calls', n_cons)

    # ---- R01.3 permit still held at every suspension point after the acquisition ----
    ys = root.yields()
    n_y_held = 0
    first_pop_doms = None
    loop_yields = []
    for y in (ys if not handed else []):
        # a suspension point lies after the acquisition iff a pop dominates it or it is reachable from a pop
        after_acq = any(b.path == root.path and y.idx in an.reach_after(blk.idx, ('normal',)) for b, blk, m in pops)
        if after_acq:
            loop_yields.append(y)
            held = bool(held_locals(an, y.idx, PERMIT_ADT))
            n_y_held += 1 if held else 0
            ctx.ob('R01.3', 'permit held across suspension point', held, ctx.where(root, y.term.line),
                   'get() can be suspended (and cancelled) here without owning its permit' if not held else '',
                   construct='getter:yield-without-permit', sites=[ctx.where(root, y.term.line)])
    if not handed:
        ctx.floor('R01.3', 'suspension points of timeout_get after the acquisition', len(loop_yields), 2)

    # ---- R01.4 add_permits on the pool semaphore --------------------------
    allowed = {b.path for b in r.RETURN} | {b.path for b in r.TAKE} | {r.RESIZE.path}
    sites = []
    for b in managed_bodies(prog):
        for blk in b.blocks:
            if r.is_sem_call(b, blk.term, 'add_permits'):
                sites.append((b, blk))
    ctx.floor('R01.4', 'add_permits call sites in the managed module', len(sites), 3)
    for b, blk in sites:
        ctx.saw(b)
        ok = b.path in allowed
        ctx.ob('R01.4', 'add_permits only from return / take / resize', ok, ctx.where(b, blk.term.line),
               'permits re-enter circulation outside the return / take / grow paths' if not ok else '',
               construct='add_permits-in:' + b.name, sites=[ctx.where(b, blk.term.line)])
        if b.path == r.RESIZE.path or not ok:
            continue
        ban = prog.an(b)
        amt = ban.resolve_operand(blk.term.args[1]) if len(blk.term.args) > 1 else '?'
        ctx.ob('R01.4', 'amount is the constant 1', amt == '1_usize', ctx.where(b, blk.term.line),
               'add_permits(%s)' % amt, construct='add_permits-amount:' + b.name)
        ctx.ob('R01.4', 'at most once per invocation', not in_cycle(ban, blk.idx), ctx.where(b, blk.term.line),
               'add_permits inside a loop', construct='add_permits-loop:' + b.name)
        others = [x for bb2, x in sites if bb2.path == b.path and x.idx != blk.idx]
        twice = [x for x in others if x.idx in ban.reach_after(blk.idx, ('normal',))]
        ctx.ob('R01.4', 'one add_permits per path', not twice, ctx.where(b, blk.term.line),
               'a second add_permits is reachable', construct='add_permits-twice:' + b.name)
        # publication order on the return path: the object is in the idle queue before the permit that advertises it is
        # released - otherwise a waiter woken by the permit finds the queue empty and creates one object too many
        if b.path in {h.path for h in r.RETURN} and b.path not in {h.path for h in r.TAKE}:
            pushes = [x.idx for x, m in queue_calls(r, b, ban) if m.startswith('push')]
            # (arms that contradict a dominating test of the same relation - a shared helper re-testing it - are not paths)
            dead_ = [tg for sw_, tg in contradicted_arms(ban, r, b) if sum(1 for x_ in b.blocks if tg in ban.succs(x_.idx, ('normal',))) == 1]
            okp = bool(pushes) and blk.idx not in ban.reach([0], ('normal',), avoid=pushes + dead_)
            ctx.ob('R01.4', 'a returned object is queued before its permit is released', okp, ctx.where(b, blk.term.line),
                   'add_permits can run before the object has been pushed: a woken get() pops nothing and creates an object beyond max_size' if not okp else '',
                   construct='permit-before-push:' + b.name)
        # governing comparison
        rels = governing_relations(ban, r, blk.idx)
        dec = r.field_writes(b, r.SLOTS, r.SIZE)
        want = 'size<=max'
        detail = ''
        okrel = False
        for rel, swbb, cmpbb in rels:
            # comparison evaluated after the decrement of size => the equivalent test is strict
            after_dec = any(ban.dominates(wbb, cmpbb) and wbb != cmpbb or (wbb == cmpbb) for wbb, _, _ in dec) and \
                any(classify_write(ban, s)[0] == '-=' for _, _, s in dec)
            w = 'size<max' if after_dec else want
            if rel == w:
                okrel = True
            detail = 'governing test is `%s` (expected `%s`)' % (rel, w)
        if not rels:
            detail = 'no comparison of size and max_size governs this add_permits'
        ctx.ob('R01.4', 'permit returned exactly when size<=max (surplus withheld)', okrel, ctx.where(b, blk.term.line),
               detail if not okrel else '', construct='add_permits-guard:' + b.name)

    # who may call the helpers that put permits back: only the end of an Object (drop / take).  A call from the getter
    # region would return a permit while the getter still holds its own.
    for h, rootb in [(x, r.OBJ_DROP) for x in r.RETURN if x.path != r.OBJ_DROP.path] + [(x, r.OBJ_TAKE) for x in r.TAKE if x.path != r.OBJ_TAKE.path]:
        callers = sorted({prog.bodies[cp].name for cp, bb, k in prog.callers_of(h.path)})
        ok = callers == [rootb.name]
        ctx.ob('R01.4', 'the permit-returning helper is called only when an Object ends', ok, ctx.where(h),
               '%s is called from %s: a permit is put back while its holder may still own one' % (h.name, callers) if not ok else '',
               construct='helper-callers:' + h.name, sites=callers)

    # ---- R01.5 the single size increment ---------------------------------
    incs = []
    decs = []
    for b in managed_bodies(prog):
        for bb, i, s in r.field_writes(b, r.SLOTS, r.SIZE):
            op, opnd = classify_write(prog.an(b), s)
            if op == '+=':
                incs.append((b, bb, s, opnd))
            elif op == '-=':
                decs.append((b, bb, s, opnd))
            else:
                ctx.ob('R01.5', 'size is only ever incremented or decremented', False, ctx.where(b, s.line),
                       'size assigned `%s`' % opnd, construct='size-assign:' + b.name)
    ctx.count('size_decrement_sites', len(decs))
    ctx.ob('R01.5', 'exactly one site increments size', len(incs) == 1,
           ctx.where(incs[0][0], incs[0][2].line) if incs else '', '%d increment sites' % len(incs), construct='size-inc-count',
           sites=[ctx.where(b, s.line) for b, _, s, _ in incs])
    for b, bb, s, opnd in incs:
        ban = prog.an(b)
        ctx.ob('R01.5', 'increment is by 1', opnd == '1_usize', ctx.where(b, s.line), 'size += %s' % opnd, construct='size-inc-amount')
        ctx.ob('R01.5', 'increment happens in the getter', b.path in r.GETTER, ctx.where(b, s.line), '', construct='size-inc-outside-getter')
        # UNREADY guard constructed before and live at the increment
        aggs = [blk.idx for blk in b.blocks for st in blk.stmts
                if st.kind == 'assign' and st.rv.kind == 'agg' and st.rv.j.get('adt') == r.UNREADY]
        cr = [blk.idx for blk in manager_calls(b, MANAGER_CREATE)]
        dom_create = any(ban.dominates(c, bb) for c in cr)
        dom_agg = any(ban.dominates(a, bb) for a in aggs)
        held = bool(held_locals(ban, bb, r.UNREADY)) or _held_at_stmt(ban, bb, r.UNREADY)
        ctx.ob('R01.5', 'increment follows the completed create', dom_create, ctx.where(b, s.line),
               'size += 1 is not dominated by the Manager::create call' if not dom_create else '', construct='size-inc-before-create')
        ctx.ob('R01.5', 'the new object is already owned by the guard when size is incremented', dom_agg and held, ctx.where(b, s.line),
               'size += 1 without a live %s around the new object: a cancellation or panic would leak the slot' % r.UNREADY.split('::')[-1]
               if not (dom_agg and held) else '', construct='size-inc-unguarded')
        ys_between = []
        for a in aggs:
            for x in ban.reach_after(a, ('normal',), avoid=[bb]) | {a}:
                if b.blocks[x].term.kind == 'yield' and bb in ban.reach_after(x, ('normal',)):
                    ys_between.append(b.blocks[x].term.line)
        ctx.ob('R01.5', 'no suspension point between wrapping the object and counting it', not ys_between, ctx.where(b, s.line),
               'yield at line(s) %s' % ys_between if ys_between else '', construct='size-inc-after-yield')
        okc = holds_in_context(prog, b, permit_held, root_paths) or permit_held(b, bb)
        ctx.ob('R01.5', 'increment happens under a held permit', okc, ctx.where(b, s.line), '', construct='size-inc-without-permit')

    # ---- R01.6 (part) the guard's Drop gives the size slot back ------------
    check_unready_drop(ctx, r, 'R01.6')

    # ---- R01.7 one source of objects ---------------------------------------
    cons = []
    for b in managed_bodies(prog):
        for blk in b.blocks:
            for s in blk.stmts:
                if s.kind == 'assign' and s.rv.kind == 'agg' and s.rv.j.get('adt') == r.OBJINNER:
                    cons.append((b, s))
    ctx.ob('R01.7', 'ObjectInner is constructed at exactly one site, in the getter', len(cons) == 1 and cons[0][0].path in r.GETTER,
           ctx.where(cons[0][0], cons[0][1].line) if cons else '', '%d construction sites' % len(cons), construct='objinner-construct',
           sites=[ctx.where(b, s.line) for b, s in cons])

    # ---- R01.8 initial ledger ----------------------------------------------
    fb = r.CONSTRUCTOR
    if fb is None:
        ctx.undecide('R01.8', 'the function constructing the pool state was not found')
    else:
        ctx.saw(fb)
        fan = prog.an(fb)
        sem_new = calls_named(fb, ['tokio::sync::Semaphore::new'])
        slots_agg = [s for blk in fb.blocks for s in blk.stmts if s.kind == 'assign' and s.rv.kind == 'agg' and s.rv.j.get('adt') == r.SLOTS]
        if len(sem_new) != 1 or len(slots_agg) != 1:
            ctx.undecide('R01.8', 'from_builder: %d Semaphore::new, %d Slots aggregates' % (len(sem_new), len(slots_agg)))
        else:
            permits = fan.resolve_operand(sem_new[0].term.args[0])
            fields = dict(zip(slots_agg[0].rv.j['fields'], slots_agg[0].rv.ops))
            mx = fan.resolve_operand(fields[r.MAX])
            sz = fan.resolve_operand(fields[r.SIZE])
            # same origin (the configured limit, unmodified), however it is handed around (constructor parameters, locals)
            def lim_origin(o):
                s_ = sources(fan, o, deep=True)
                return (any(x[0] == 'field' and x[1] == 'deadpool::managed::config::PoolConfig.max_size' for x in s_),
                        sorted({str(x[1]) for x in s_ if x[0] in ('bin', 'call') or (x[0] == 'const' and not str(x[1]).startswith('fn'))}))
            po, mo = lim_origin(sem_new[0].term.args[0]), lim_origin(fields[r.MAX])
            same = permits == mx or (po[0] and mo[0] and not po[1] and not mo[1])
            ctx.ob('R01.8', 'semaphore starts with max_size permits', same, ctx.where(fb, sem_new[0].term.line),
                   'Semaphore::new(%s) vs max_size: %s' % (permits, mx), construct='init-permits', sites=[permits, mx])
            ctx.ob('R01.8', 'size starts at 0', sz == '0_usize', ctx.where(fb, slots_agg[0].line), 'size: %s' % sz, construct='init-size')

    # ---- R01.11 idle objects stay in the queue (under the lock) until a permit holder pops them ------------------------
    # the queue storage is never handed out by mutable reference to anything but its own methods (`mem::replace/take/swap`
    # would move every idle object out of the books: a get() holding a legitimate permit then finds nothing and creates)
    n_q = 0
    n_foreign = []
    for b in managed_bodies(prog):
        ban = prog.an(b)
        for blk in b.blocks:
            t_ = blk.term
            if t_.kind != 'call' or blk.cleanup:
                continue
            for i_, a_ in enumerate(t_.args):
                if a_.kind == 'const' or a_.place.proj:
                    continue
                ty_ = b.locals[a_.place.local]['ty']
                if not (ty_.startswith('&mut ') and 'std::collections::VecDeque<' in ty_):
                    continue
                if not any(s_[0] == 'field' and s_[1] == '%s.%s' % (r.SLOTS, r.QUEUE) for s_ in sources(ban, a_)):
                    continue
                n_q += 1
                own_method = any(n_.startswith('std::collections::VecDeque::') or n_.startswith('<std::collections::VecDeque') or n_.startswith('std::collections::vec_deque::') or
                                 n_.endswith('IntoIterator>::into_iter') or n_.endswith('IndexMut>::index_mut') or n_.endswith('Index>::index') or n_.endswith('Extend>::extend') for n_ in t_.callee_names())
                # a foreign function (mem::take / replace / swap ..) is harmless while the slots lock stays held until the critical
                # section ends with the contents back in place; what breaks the books is releasing the lock while the queue is
                # swapped out.  Releasing and restoring needs a second lock(): reachable after this call = the window exists
                relock = []
                if not own_method:
                    after = ban.reach_after(blk.idx, ('normal',))
                    relock = [x for x in after if b.blocks[x].term.kind == 'call' and not b.blocks[x].cleanup and b.blocks[x].term.callee_names() & {'std::sync::Mutex::lock', 'std::sync::Mutex::try_lock'}]
                    n_foreign.append(ctx.where(b, t_.line))
                ok_ = own_method or not relock
                ctx.ob('R01.11', 'the idle queue is never swapped out of the pool across a release of the slots lock', ok_, ctx.where(b, t_.line),
                       '%s receives `&mut` to the idle queue and the slots lock is taken again afterwards (line %s): between the two the idle objects are outside the pool while other callers hold permits for them' % (sorted(t_.callee_names()), b.blocks[relock[0]].term.line) if not ok_ else '',
                       construct='queue-mut-ref:%s:%s' % (b.name, sorted(t_.callee_names())[0] if t_.callee_names() else '?'))
    ctx.floor('R01.11', 'mutable uses of the idle queue', n_q, 5)
    ctx.count('queue_foreign_mut_uses', len(n_foreign))

    # ---- R01.8 (cont.) the limit used is the limit configured ----------------------------------------------------
    builder_plumbing(ctx, 'R01.8', ['max_size', 'config'])

    # ---- R01.10 = the shrink / grow ledger of resize(): once a resize has finished the bound is the new max_size, so the
    # permits it removes and adds are part of this property too (the capacity-ledger rule R07.5 is C07's known finding D1
    # and is not repeated here; C02 runs the same rules under R02.9 and does not take them from here a second time)
    if with_resize:
        from . import rules_C07
        n0 = len(ctx.obs)
        nd0 = list(ctx.not_decided)
        rules_C07.run(ctx)
        keep = ctx.obs[:n0]
        for o in ctx.obs[n0:]:
            if o['rule'] == 'R07.5':
                continue
            o['rule'] = 'R01.10/' + o['rule']
            keep.append(o)
        ctx.obs[:] = keep
        ctx.not_decided[:] = nd0

    # ---- R01.9 conservation on every path (effect ledger, dprules/ledger.py) ---------------------------------
    from .ledger_rules import ledger_obligations
    ledger_obligations(ctx, r, 'R01.9', (0, 1))

    ctx.not_decided += [
        "tokio's Semaphore never grants more permits than it holds (trusted base)",
        'the numeric invariant |live objects| <= max_size over all interleavings (a model-checking statement); decided '
        'here is that every code path keeps its side of the permit/size ledger',
    ]
    ctx.assumptions += ['rustc MIR construction is faithful', 'tokio Semaphore/SemaphorePermit semantics', 'no async-drop types']


def _ty_adts(body, place):
    # type of the destination local (dest is almost always a plain local)
    return body.locals[place.local]['parts']['adts']


def _held_at_stmt(an, bb, adt):
    # must-init at block entry is sufficient for statements that follow (no kill of guard types by statements)
    flow = an.init_flow()
    if bb not in flow:
        return False
    mu, _ = flow[bb]
    for i, l in enumerate(an.b.locals):
        if adt_of(l['ty']) == adt and not l['ty'].startswith('&') and (mu >> i) & 1:
            return True
    return False


def check_unready_drop(ctx, r, rule):
    """Drop for the not-ready guard: under Some(inner): size -= 1 (under the lock) and Manager::detach, once each"""
    prog = ctx.prog
    b = r.UNREADY_DROP
    ctx.saw(b)
    an = prog.an(b)
    decs = [(bb, s) for bb, i, s in r.field_writes(b, r.SLOTS, r.SIZE) if classify_write(an, s) == ('-=', '1_usize')]
    dets = manager_calls(b, MANAGER_DETACH)
    ctx.ob(rule, 'guard drop releases the size slot exactly once', len(decs) == 1, ctx.where(b),
           '%d `size -= 1` sites in Drop for %s' % (len(decs), r.UNREADY.split('::')[-1]), construct='unready-drop:size',
           sites=[ctx.where(b, s.line) for _, s in decs])
    ctx.ob(rule, 'guard drop detaches the object exactly once', len(dets) == 1, ctx.where(b),
           '%d Manager::detach calls in Drop for %s' % (len(dets), r.UNREADY.split('::')[-1]), construct='unready-drop:detach',
           sites=[ctx.where(b, blk.term.line) for blk in dets])
    # both lie on the Some branch of a take()/match on the inner option and not in a loop; on the None branch nothing happens
    sw = [blk for blk in b.blocks if maybe_arms(r.crate, blk.term) is not None and not blk.cleanup]
    if len(sw) >= 1 and decs and dets:
        s0 = sw[0]
        some, none = maybe_arms(r.crate, s0.term)
        if some is None or none is None:
            ctx.undecide(rule, 'cannot identify Some/None arms in guard drop')
            return
        rs = an.reach([some], ('normal',), avoid=[])
        rn = an.reach([none], ('normal',), avoid=[some])
        for what, bbs in (('size -= 1', [d[0] for d in decs]), ('detach', [d.idx for d in dets])):
            for x in bbs:
                ok = x in rs and x not in rn and not in_cycle(an, x)
                ctx.ob(rule, '%s only (and always) when the guard still owns the object' % what, ok, ctx.where(b, b.blocks[x].term.line), '',
                       construct='unready-drop:branch:' + what)
                # must-pass: every path from the Some arm to return passes it
                okp, w = an.must_pass([s0.idx] if False else [], [x], [], ('normal',))
            # every normal path from Some arm to the return passes the event
            rets = an.exits()['return']
            avoid = bbs
            esc = an.reach([some], ('normal',), avoid=avoid)
            ok2 = not any(e in esc for e in rets)
            ctx.ob(rule, '%s on every path of the owning branch' % what, ok2, ctx.where(b), '', construct='unready-drop:allpaths:' + what)
    else:
        ctx.ob(rule, 'guard drop is conditional on still owning the object', False, ctx.where(b),
               'no Option switch found in Drop for the guard', construct='unready-drop:shape')

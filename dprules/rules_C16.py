"""C16 - postgres pool: health checks, statement cache and cache registry are exact."""
import os, re
from .mcommon import calls_named, in_cycle, branch_condition
from .roles import adt_of
from .facts import strip_generics, Operand, Place
from .analysis import sources, success_edges, reach_without_edges
from .engine import Undecided
from .rules_C14 import closure_args_of
from . import extract

TECHNIQUE = 'branch tables of recycle() and RecyclingMethod::query (with evaluated constants), def-use origin of the cache key and of the client / cache pairing, atomic-update inventory next to the map mutation, must-pass-through of attach on create; on mir_built of deadpool-postgres'
LEVEL_TEXT = 'static analysis of every path of the deadpool-postgres manager, statement cache and wrapper types'
EXPLANATION = ('Decided: recycle() tests Client::is_closed first (true => Err) and then switches on RecyclingMethod::query(): None => Ok without any '
               'query, Some(sql) => simple_query(sql) whose error is returned; query() is the table Fast->None, Verified->"", Clean->DISCARD_SQL (equal to '
               'the documented statement list), Custom(s)->s; the cache key is built from both query and types in get / insert / remove and prepare_typed '
               'passes the same two values to get, to Client::prepare_typed and to insert; a hit returns without touching the client, a miss inserts only '
               'after a successful prepare; size changes only next to the map mutation it describes, under the write guard; every Transaction / '
               'TransactionBuilder takes client and cache from the same self; create() attaches the cache of the wrapper it returns, detach() forwards '
               'to the registry, which removes exactly the pointer-equal entries; clear / remove visit every registered entry that still upgrades.')

PG = 'deadpool_postgres'
SC = 'deadpool_postgres::StatementCache'
KEY = 'deadpool_postgres::StatementCacheKey'


def run(ctx):
    prog = ctx.prog
    c = prog.crates.get('deadpool_postgres')
    if c is None:
        raise Undecided('deadpool_postgres not extracted')
    def B(n, exact=False):
        b = prog.bodies.get(n) if exact else prog.body(n)
        if b is None:
            raise Undecided('body %s not found' % n)
        ctx.saw(b)
        return b

    # ---- R16.1 recycle ---------------------------------------------------------------------------
    rec = B('<deadpool_postgres::Manager as deadpool::managed::Manager>::recycle::{closure#0}', True)
    an = prog.an(rec)
    isc = [blk for blk in rec.blocks if blk.term.kind == 'call' and not blk.cleanup and 'tokio_postgres::Client::is_closed' in blk.term.callee_names()]
    qs = [blk for blk in rec.blocks if blk.term.kind == 'call' and not blk.cleanup and any(n.startswith('tokio_postgres::Client::') and n.split('::')[-1] in
          ('simple_query', 'batch_execute', 'query', 'execute', 'query_one', 'query_opt', 'prepare', 'query_raw', 'execute_raw', 'simple_query_raw') for n in blk.term.callee_names())]
    ok = len(isc) == 1 and all(an.dominates(isc[0].idx, q.idx) for q in qs)
    ctx.ob('R16.1', 'recycle tests Client::is_closed before anything else', ok, ctx.where(rec), '%d is_closed calls' % len(isc), construct='recycle:is_closed-first')
    if isc:
        # is the client tested the one being recycled?
        src = sources(an, isc[0].term.args[0])
        ctx.ob('R16.1', 'the connection tested is the one being recycled', any(s[0] == 'upvar' and s[1].startswith('client') for s in src), ctx.where(rec, isc[0].term.line), '', construct='recycle:is_closed-arg')
        sw = rec.blocks[isc[0].term.target]
        if sw.term.kind == 'switch' and sw.term.j.get('dty') == 'bool':
            arms = dict(sw.term.switch_arms())
            rt = an.reach([arms['true']], ('normal',), avoid=[arms['false']])
            errs = [bb for bb, cls, det in an.ret_assignments() if cls == 'err' and bb in rt]
            oks = [bb for bb, cls, det in an.ret_assignments() if cls == 'ok' and bb in rt]
            ctx.ob('R16.1', 'a closed connection is rejected', bool(errs) and not oks and not any(q.idx in rt for q in qs), ctx.where(rec, sw.term.line), '', construct='recycle:closed-reject')
        else:
            ctx.ob('R16.1', 'the is_closed result is tested', False, ctx.where(rec, isc[0].term.line), '', construct='recycle:closed-untested')
    mq = [blk for blk in rec.blocks if blk.term.kind == 'call' and not blk.cleanup and blk.term.rcallee == 'deadpool_postgres::config::RecyclingMethod::query']
    ok = len(mq) == 1 and any(s[0] == 'field' and s[1].endswith('ManagerConfig.recycling_method') for s in sources(an, mq[0].term.args[0]))
    ctx.ob('R16.1', 'the check issued is the one of the configured recycling method', ok, ctx.where(rec), '', construct='recycle:method')
    if len(mq) == 1:
        sws = [blk for blk in rec.blocks if blk.term.kind == 'switch' and blk.term.j.get('adt') == 'std::option::Option' and 'on' in blk.term.j and
               any(s[0] == 'call' and s[2] == mq[0].idx for s in sources(an, Operand({'c': blk.term.j['on']})))]
        if len(sws) > 1:
            sws = [x for x in sws if all(an.dominates(x.idx, y.idx) for y in sws)]
        if len(sws) != 1:
            ctx.undecide('R16.1', 'switch on the query() result not found')
        else:
            arms = dict(sws[0].term.switch_arms())
            rn = an.reach([arms['None']], ('normal',), avoid=[arms['Some']])
            rs = an.reach([arms['Some']], ('normal',), avoid=[arms['None']])
            okn = not any(q.idx in rn for q in qs) and any(bb in rn for bb, cls, det in an.ret_assignments() if cls == 'ok') and not any(b2.term.kind == 'yield' for b2 in [rec.blocks[x] for x in rn])
            ctx.ob('R16.1', 'no query for a method without one (Fast)', okn, ctx.where(rec, sws[0].term.line), '', construct='recycle:none-arm')
            sq = [q for q in qs if q.idx in rs]
            oks = len(sq) == 1 and 'tokio_postgres::Client::simple_query' in sq[0].term.callee_names() and \
                any(s[0] == 'call' and s[2] == mq[0].idx for s in sources(an, sq[0].term.args[1])) and \
                any(s[0] == 'upvar' and s[1].startswith('client') for s in sources(an, sq[0].term.args[0]))
            ctx.ob('R16.1', 'exactly the method\'s SQL is sent with simple_query on the recycled connection', oks, ctx.where(rec, sws[0].term.line), '%d queries' % len(sq), construct='recycle:some-arm')
            if sq:
                # whenever the method names a query - whatever its text: Verified's check IS the empty query - it is sent: no way
                # from the Some arm to a successful return around the simple_query call
                esc_ = an.reach([arms['Some']], ('normal',), avoid=[sq[0].idx, arms['None']])
                around = [bb for bb, cls, det in an.ret_assignments() if cls == 'ok' and bb in esc_]
                ctx.ob('R16.1', 'a method with a check never accepts the client without issuing it', not around, ctx.where(rec, sws[0].term.line),
                       'a path from `query() == Some(..)` reaches Ok(()) without simple_query (an "empty statement" shortcut turns Verified into Fast)' if around else '', construct='recycle:some-arm-bypass')
                poll = [blk for blk in rec.blocks if blk.term.kind == 'call' and blk.term.rcallee and blk.term.rcallee.endswith('simple_query::{closure#0}')]
                ok_e, fail_e = success_edges(an)
                if poll:
                    reach = reach_without_edges(an, poll[0].idx, ok_e, ('normal',))
                    bad = [bb for bb, cls, det in an.ret_assignments() if cls == 'ok' and bb in reach]
                    ctx.ob('R16.1', 'a failing check discards the client', not bad, ctx.where(rec, sq[0].term.line), '', construct='recycle:query-error')
    qf = B('deadpool_postgres::config::RecyclingMethod::query')
    qan = prog.an(qf)
    sw = [blk for blk in qf.blocks if blk.term.kind == 'switch' and blk.term.j.get('adt') == 'deadpool_postgres::config::RecyclingMethod']
    consts = {k['path']: k['value'] for k in c.j.get('consts', [])}
    table = {}
    if len(sw) == 1:
        arms = dict(sw[0].term.switch_arms())
        for lab, tgt in arms.items():
            others = [t for l2, t in arms.items() if l2 != lab]
            reach = qan.reach([tgt], ('normal',), avoid=others)
            vals = []
            for x in reach:
                for s in qf.blocks[x].stmts:
                    if s.kind == 'assign' and s.place.local == 0 and s.rv.kind == 'agg':
                        if s.rv.j['variant'] == 'None':
                            vals.append('None')
                        else:
                            srcs = sources(qan, s.rv.ops[0])
                            cs = [x_[1] for x_ in srcs if x_[0] == 'const']
                            fl = [x_[1] for x_ in srcs if x_[0] == 'field']
                            if cs:
                                v = cs[0]
                                v = consts.get(v, v)
                                vals.append('Some(%s)' % v)
                            elif fl:
                                vals.append('Some(field %s)' % fl[-1])
            table[lab] = vals
    discard = consts.get('deadpool_postgres::config::RecyclingMethod::DISCARD_SQL', '')
    exp = {'Fast': ['None'], 'Verified': ['Some("")'], 'Clean': ['Some(%s)' % discard]}
    for k, v in exp.items():
        ctx.ob('R16.1', 'RecyclingMethod::%s issues its documented check' % k, table.get(k) == v, ctx.where(qf), 'got %s' % table.get(k), construct='query-table:' + k, sites=table.get(k) or [])
    cu = table.get('Custom') or []
    ctx.ob('R16.1', 'RecyclingMethod::Custom issues the custom SQL', len(cu) == 1 and 'RecyclingMethod.0' in cu[0], ctx.where(qf), 'got %s' % cu, construct='query-table:Custom')
    # the clean-up script equals the documented statement list
    src_path = os.path.join(extract.REPO, 'postgres', 'src', 'config.rs')
    try:
        text = open(src_path).read()
        m = re.search(r'```sql\n(.*?)```.*?\n\s*Clean,', text, re.S)
        doc = [re.sub(r'^\s*///\s?', '', l).strip() for l in m.group(1).splitlines()] if m else []
        doc = [d for d in doc if d]
        code = [x.strip() + ';' for x in discard.strip('"').split(';') if x.strip()]
        ctx.ob('R16.1', 'the clean-up script is the documented statement list', bool(doc) and doc == code, 'postgres/src/config.rs', 'documented %s vs code %s' % (doc, code), construct='discard-sql-doc')
    except OSError:
        ctx.undecide('R16.1', 'cannot read postgres/src/config.rs for the documented statement list')

    # the statement cache lives in the client wrapper and survives recycling: a clean-up script that deallocates the
    # server side of those statements (DISCARD ALL implies DEALLOCATE ALL) makes every later cache hit fail - unless the
    # recycle path clears the cache as well
    clears = [blk for blk in rec.blocks if blk.term.kind == 'call' and not blk.cleanup and blk.term.rcallee and strip_generics(blk.term.rcallee) == SC + '::clear']
    up = re.sub(r'\s+', ' ', discard.upper())
    dealloc = [tok for tok in ('DISCARD ALL', 'DEALLOCATE') if tok in up]
    ctx.ob('R16.1', 'the clean-up script keeps the server side of the cached statements (or recycle clears the cache)', not dealloc or bool(clears), ctx.where(qf),
           'the script contains %s while recycle() keeps the client-side statement cache: prepare_cached would return statements the server no longer knows' % dealloc if dealloc and not clears else '',
           construct='discard-sql-deallocates')

    # ---- R16.2 cache key = (query, types) -------------------------------------------------------------
    kadt = c.adt(KEY)
    # (without the key type - a cache indexed in another way - the key rules have nothing to say: UNDECIDED below, never an alarm)
    for fn in ('get', 'insert', 'remove') if kadt is not None else ():
        b = B(SC + '::' + fn)
        ban = prog.an(b)
        aggs = [s for blk in b.blocks for s in blk.stmts if s.kind == 'assign' and s.rv.kind == 'agg' and s.rv.j.get('adt') == KEY and not blk.cleanup]
        ok = len(aggs) == 1
        if ok:
            f = dict(zip(aggs[0].rv.j['fields'], aggs[0].rv.ops))
            sq = {x[1] for x in sources(ban, f['query']) if x[0] == 'arg'}
            st = {x[1] for x in sources(ban, f['types']) if x[0] == 'arg'}
            ok = sq == {'query'} and st == {'types'}
        ctx.ob('R16.2', '%s builds its key from query and types' % fn, ok, ctx.where(b), '', construct='key:' + fn)
        # the map operation uses that key
        mops = [blk for blk in b.blocks if blk.term.kind == 'call' and not blk.cleanup and any(n.startswith('std::collections::HashMap::') and n.split('::')[-1] in ('get', 'insert', 'remove') for n in blk.term.callee_names())]
        okm = len(mops) == 1 and any(s[0] == 'agg' and s[1].startswith(KEY) for s in sources(ban, mops[0].term.args[1]))
        ctx.ob('R16.2', '%s uses that key on the map' % fn, okm, ctx.where(b), '', construct='key-use:' + fn)
    if kadt is None:
        ctx.undecide('R16.2', 'the (query, types) key type of the statement cache was not found: the cache is indexed differently')
    else:
        kf = sorted(f['name'] for f in kadt['variants'][0]['fields'])
        derived = {i['trait'] for i in c.impls if adt_of(i['self_ty']) == KEY and i['derived']}
        ctx.ob('R16.2', 'the key type hashes and compares both fields (derived)', kf == ['query', 'types'] and {'std::hash::Hash', 'std::cmp::PartialEq', 'std::cmp::Eq'} <= derived, '', 'fields %s derived %s' % (kf, sorted(derived)), construct='key-type')
    pt = B(SC + '::prepare_typed::{closure#0}')
    pan = prog.an(pt)
    def call_of(name):
        return [blk for blk in pt.blocks if blk.term.kind == 'call' and not blk.cleanup and blk.term.rcallee and strip_generics(blk.term.rcallee) == name]
    g = call_of(SC + '::get'); ins = call_of(SC + '::insert'); prep = [blk for blk in pt.blocks if blk.term.kind == 'call' and not blk.cleanup and 'tokio_postgres::Client::prepare_typed' in blk.term.callee_names()]
    ok = len(g) == 1 and len(ins) == 1 and len(prep) == 1
    if ok:
        for blk, nm in ((g[0], 'get'), (prep[0], 'Client::prepare_typed'), (ins[0], 'insert')):
            q = {x[1] for x in sources(pan, blk.term.args[1]) if x[0] == 'upvar'}
            ty = {x[1] for x in sources(pan, blk.term.args[2]) if x[0] == 'upvar'}
            ctx.ob('R16.2', 'prepare_typed passes the same query and types to %s' % nm, q == {'query'} and ty == {'types'}, ctx.where(pt, blk.term.line), 'query from %s, types from %s' % (q, ty), construct='prepare-args:' + nm)
        # ---- R16.3 hit / miss --------------------------------------------------------------------------
        sws = [blk for blk in pt.blocks if blk.term.kind == 'switch' and blk.term.j.get('adt') == 'std::option::Option' and 'on' in blk.term.j and
               any(s[0] == 'call' and s[2] == g[0].idx for s in sources(pan, Operand({'c': blk.term.j['on']})))]
        if len(sws) == 1:
            arms = dict(sws[0].term.switch_arms())
            rs = pan.reach([arms['Some']], ('normal',), avoid=[arms['None']])
            hit_calls = [x for x in rs if pt.blocks[x].term.kind == 'call' and not pt.blocks[x].cleanup and any(n.startswith('tokio_postgres::') for n in pt.blocks[x].term.callee_names())]
            ys = [x for x in rs if pt.blocks[x].term.kind == 'yield']
            ctx.ob('R16.3', 'a cache hit causes no call on the client and no suspension', not hit_calls and not ys, ctx.where(pt, sws[0].term.line), '', construct='hit:no-roundtrip')
            ok_e, fail_e = success_edges(pan)
            poll = [blk for blk in pt.blocks if blk.term.kind == 'call' and blk.term.rcallee and blk.term.rcallee.endswith('Client::prepare_typed::{closure#0}')]
            if poll:
                reach = reach_without_edges(pan, poll[0].idx, ok_e, ('normal',))
                ctx.ob('R16.3', 'a miss inserts only after a successful prepare', ins[0].idx not in reach and pan.dominates(prep[0].idx, ins[0].idx), ctx.where(pt, ins[0].term.line), '', construct='miss:insert-after-prepare')
            # the statement inserted / returned is the one prepared
            s_ins = sources(pan, ins[0].term.args[3])
            ctx.ob('R16.3', 'the statement cached is the one just prepared', any(s[0] == 'call' and 'prepare_typed' in s[1] for s in s_ins), ctx.where(pt, ins[0].term.line), '', construct='miss:stmt-origin')
        else:
            ctx.undecide('R16.3', 'test of the cache lookup not found')
    else:
        ctx.ob('R16.2', 'prepare_typed = get / Client::prepare_typed / insert', False, ctx.where(pt), 'get %d prepare %d insert %d' % (len(g), len(prep), len(ins)), construct='prepare-shape')
    pr = B(SC + '::prepare::{closure#0}')
    pran = prog.an(pr)
    fw = [blk for blk in pr.blocks if blk.term.kind == 'call' and not blk.cleanup and blk.term.rcallee and strip_generics(blk.term.rcallee) == SC + '::prepare_typed']
    okp = len(fw) == 1
    if okp:
        tys = sources(pran, fw[0].term.args[3], deep=True)
        okp = not any(s[0] in ('upvar', 'arg', 'field') for s in tys)
        okp = okp and {x[1] for x in sources(pran, fw[0].term.args[2]) if x[0] == 'upvar'} == {'query'}
    ctx.ob('R16.2', 'prepare() is prepare_typed with the empty type list', okp, ctx.where(pr), '', construct='prepare-untyped')

    # ---- R16.4 size ----------------------------------------------------------------------------------------
    ups = []
    for b in c.bodies:
        ban = prog.an(b)
        for blk in b.blocks:
            t = blk.term
            if t.kind == 'call' and not blk.cleanup and t.args and any('atomic' in n and n.split('::')[-1] in ('fetch_add', 'fetch_sub', 'store', 'swap') for n in t.callee_names()):
                if any(s[0] == 'field' and s[1] == SC + '.size' for s in sources(ban, t.args[0])):
                    ups.append((b, blk, [n for n in t.callee_names() if 'atomic' in n][0].split('::')[-1], ban.resolve_operand(t.args[1])))
    # two exact ways of keeping `size` = number of keys: count the changes (+1 on a fresh insert, -1 on a successful remove, 0 on
    # clear) or re-derive it as `map.len()` after the last change of a critical section
    def is_len_store(b, blk, op):
        if op != 'store':
            return False
        ban_ = prog.an(b)
        src = sources(ban_, blk.term.args[1], deep=True)
        if not any(x[0] == 'call' and x[1].startswith('std::collections::HashMap::') and x[1].endswith('::len') for x in src):
            return False
        if any(x[0] in ('bin', 'const') for x in sources(ban_, blk.term.args[1])):
            return False
        # no change of the map after the store in this function
        after = ban_.reach_after(blk.idx, ('normal',))
        later = [x for x in after if b.blocks[x].term.kind == 'call' and not b.blocks[x].cleanup and
                 any(n.startswith('std::collections::HashMap::') and n.split('::')[-1] in ('insert', 'remove', 'clear', 'retain', 'drain', 'entry', 'extend', 'remove_entry') for n in b.blocks[x].term.callee_names())]
        return not later
    len_stores = {(b.path, blk.idx) for b, blk, op, amt in ups if is_len_store(b, blk, op)}
    got = sorted((b.name, op, amt if (b.path, blk.idx) not in len_stores else 'len(map)') for b, blk, op, amt in ups)
    exp = sorted([(SC + '::insert', 'fetch_add', '1_usize'), (SC + '::remove', 'fetch_sub', '1_usize'), (SC + '::clear', 'store', '0_usize')])
    mutators = sorted({b.name for b in c.bodies for blk in b.blocks if blk.term.kind == 'call' and not blk.cleanup and blk.term.args and
                       any(n.startswith('std::collections::HashMap::') and n.split('::')[-1] in ('insert', 'remove', 'clear', 'retain', 'drain', 'extend', 'remove_entry') for n in blk.term.callee_names()) and
                       any(s_[0] == 'field' and s_[1] == SC + '.map' for s_ in sources(prog.an(b), blk.term.args[0], deep=True))})
    by_len = sorted({b.name for b, blk, op, amt in ups if (b.path, blk.idx) in len_stores})
    szf0 = B(SC + '::size')
    szan0 = prog.an(szf0)
    direct_len = [blk for blk in szf0.blocks if blk.term.kind == 'call' and not blk.cleanup and blk.term.dest is not None and blk.term.dest.is_local() and blk.term.dest.local == 0 and
                  any(n.startswith('std::collections::HashMap::') and n.endswith('::len') for n in blk.term.callee_names()) and
                  any(s_[0] == 'field' and s_[1] == SC + '.map' for s_ in sources(szan0, blk.term.args[0], deep=True))]
    no_counter = not ups and len(direct_len) == 1          # size() IS the number of keys of the map: nothing to keep in step
    if no_counter:
        # .. provided the map is keyed by the whole (query, types) key: the length of a map keyed by the query text alone (with
        # the types one level down) counts keys that differ only in their types once
        mf = [f_ for f_ in c.adt(SC)['variants'][0]['fields'] if f_['name'] == 'map']
        keyed = bool(mf) and KEY in mf[0]['parts'].get('adts', [])
        ctx.ob('R16.4', 'size() = map.len() counts (query, types) keys', keyed, ctx.where(szf0),
               'the map whose length size() reports is not keyed by the (query, types) pair (%s): entries differing only in types are counted once' % (mf[0]['ty'] if mf else '?') if not keyed else '',
               construct='size-len-key')
    ok_inv = got == exp or (len(len_stores) == len(ups) and by_len == mutators and bool(ups)) or no_counter
    ctx.ob('R16.4', 'size is updated only by insert (+1), remove (-1) and clear (0) - or re-derived as map.len() by every function that changes the map', ok_inv, '',
           'found %s; functions changing the map %s' % (got, mutators), construct='size-inventory', sites=[str(x) for x in got])
    for b, blk, op, amt in ups:
        ban = prog.an(b)
        wg = [i for i, l in enumerate(b.locals) if adt_of(l['ty']) == 'std::sync::RwLockWriteGuard']
        st = ban.state_at_term(blk.idx)
        held = st is not None and any((st[0] >> g) & 1 for g in wg)
        ctx.ob('R16.4', 'size updated under the write guard of the map', held, ctx.where(b, blk.term.line), '', construct='size-lock:' + b.name)
        if op in ('fetch_add', 'fetch_sub'):
            conds = [blk2 for blk2 in b.blocks if blk2.term.kind == 'switch' and blk2.term.j.get('dty') == 'bool' and ban.dominates(blk2.idx, blk.idx)]
            okc = False
            for sw_ in conds:
                src = sources(ban, sw_.term.discr)
                pred = 'is_none' if op == 'fetch_add' else 'is_some'
                mop = 'insert' if op == 'fetch_add' else 'remove'
                for s in src:
                    if s[0] == 'call' and s[1].endswith('Option::' + pred):
                        a = sources(ban, b.blocks[s[2]].term.args[0])
                        if any(x[0] == 'call' and x[1].startswith('std::collections::HashMap::') and x[1].endswith('::' + mop) for x in a):
                            arms = dict(sw_.term.switch_arms())
                            okc = blk.idx in ban.reach([arms['true']], ('normal',), avoid=[arms['false']]) and blk.idx not in ban.reach([arms['false']], ('normal',), avoid=[arms['true']])
            ctx.ob('R16.4', 'size changes only when the map really gained / lost a key', okc, ctx.where(b, blk.term.line), '', construct='size-cond:' + b.name)
        if op == 'store' and (b.path, blk.idx) not in len_stores:
            cl = [x for x in b.blocks if x.term.kind == 'call' and not x.cleanup and any(n.startswith('std::collections::HashMap::') and n.endswith('::clear') for n in x.term.callee_names())]
            ctx.ob('R16.4', 'size reset together with clearing the map', len(cl) == 1, ctx.where(b, blk.term.line), '', construct='size-clear')
    szf = B(SC + '::size')
    ld = [blk for blk in szf.blocks if blk.term.kind == 'call' and any(n.endswith('::load') for n in blk.term.callee_names())]
    ctx.ob('R16.4', 'size() reports that counter (or the number of keys of the map itself)', no_counter or (len(ld) == 1 and any(s[0] == 'field' and s[1] == SC + '.size' for s in sources(prog.an(szf), ld[0].term.args[0]))), ctx.where(szf), '', construct='size-fn')

    # ---- R16.5 same-connection pairing ---------------------------------------------------------------------------
    n_pairs = 0
    for b in c.bodies:
        ban = prog.an(b)
        for blk in b.blocks:
            if blk.cleanup:
                continue
            for s in blk.stmts:
                if s.kind == 'assign' and s.rv.kind == 'agg' and s.rv.j.get('adt') in ('deadpool_postgres::Transaction', 'deadpool_postgres::TransactionBuilder'):
                    n_pairs += 1
                    f = dict(zip(s.rv.j['fields'], s.rv.ops))
                    cache_src = sources(ban, f['statement_cache'])
                    other = [v for k, v in f.items() if k != 'statement_cache'][0]
                    other_src = sources(ban, other, deep=True)
                    root_c = {x[1].split('.')[0] for x in cache_src if x[0] in ('upvar', 'arg')}
                    root_o = {x[1].split('.')[0] for x in other_src if x[0] in ('upvar', 'arg')}
                    ok = root_c == {'self'} and 'self' in root_o and any(x[0] == 'field' and x[1].endswith('.statement_cache') for x in cache_src)
                    ctx.ob('R16.5', 'transaction takes client and statement cache from the same connection', ok, ctx.where(b, s.line), 'cache from %s, client from %s' % (sorted(root_c), sorted(root_o)),
                           construct='pair:' + b.name, sites=[ctx.where(b, s.line)])
            t = blk.term
            if t.kind == 'call' and t.rcallee and strip_generics(t.rcallee) in (SC + '::prepare', SC + '::prepare_typed') and b.name.startswith(PG + '::') and SC not in b.name:
                n_pairs += 1
                s0 = sources(ban, t.args[0], deep=True); s1 = sources(ban, t.args[1], deep=True)
                r0 = {x[1].split('.')[0] for x in s0 if x[0] in ('upvar', 'arg')}
                r1 = {x[1].split('.')[0] for x in s1 if x[0] in ('upvar', 'arg')}
                ctx.ob('R16.5', 'cached prepare pairs the cache with the client of the same wrapper', r0 == {'self'} and r1 == {'self'}, ctx.where(b, t.line), '', construct='pair-prepare:' + b.name)
    ctx.floor('R16.5', 'client/cache pairings examined', n_pairs, 10)

    # ---- R16.6 registry ------------------------------------------------------------------------------------------------
    # (on the normal form: the private attach / detach helpers of the registry are part of Manager::create / Manager::detach;
    # who performs Arc::downgrade - the helper or its caller - makes no difference)
    REG = 'deadpool_postgres::StatementCaches.'
    def registry_calls(b_, meth):
        an_ = prog.an(b_)
        out = []
        for blk in b_.blocks:
            t_ = blk.term
            if t_.kind == 'call' and not blk.cleanup and t_.args and any(n.startswith('std::vec::Vec::') and n.split('::')[-1] == meth for n in t_.callee_names()):
                if any(s_[0] == 'field' and s_[1].startswith(REG) for s_ in sources(an_, t_.args[0], deep=True)):
                    out.append(blk)
        return out
    cr = B('<deadpool_postgres::Manager as deadpool::managed::Manager>::create::{closure#0}', True)
    cran = prog.an(cr)
    att = registry_calls(cr, 'push')
    oks = [bb for bb, cls, det in cran.ret_assignments() if cls == 'ok']
    okc = len(att) == 1 and bool(oks) and all(bb not in cran.reach([0], ('normal',), avoid=[att[0].idx]) for bb in oks)
    ctx.ob('R16.6', 'every successful create registers the statement cache', okc, ctx.where(cr), '%d pushes into the registry' % len(att), construct='create:attach')
    if att and oks:
        st = [s for s in cr.blocks[oks[0]].stmts if s.kind == 'assign' and s.place.is_local()][-1]
        wl = sources(cran, st.rv.ops[0], deep=True); al = sources(cran, att[0].term.args[1], deep=True)
        same = {x for x in wl if x[0] == 'call' and 'ClientWrapper::new' in x[1]} & {x for x in al if x[0] == 'call' and 'ClientWrapper::new' in x[1]}
        ctx.ob('R16.6', 'the cache attached is the one of the wrapper returned', bool(same) and any(x[0] == 'field' and x[1].endswith('ClientWrapper.statement_cache') for x in al), ctx.where(cr, att[0].term.line), '', construct='create:attach-arg')
        ctx.ob('R16.6', 'attach registers a weak handle', any(s[0] == 'call' and s[1].endswith('Arc::downgrade') for s in al), ctx.where(cr, att[0].term.line), '', construct='registry:attach')
    dt = B('<deadpool_postgres::Manager as deadpool::managed::Manager>::detach', True)
    dan = prog.an(dt)
    fw = registry_calls(dt, 'retain')
    ctx.ob('R16.6', 'Manager::detach filters the registry', len(fw) == 1, ctx.where(dt), '%d retain calls on the registry' % len(fw), construct='detach:forward')
    okr = False; okarg = False
    if len(fw) == 1:
        rcl = [cb for blk, cb in closure_args_of(prog, dt, ['std::vec::Vec::retain']) if blk.idx == fw[0].idx]
        if len(rcl) == 1:
            cb = rcl[0]
            ctx.saw(cb)
            can = prog.an(cb)
            # identity of the allocation: Weak::ptr_eq, or the raw addresses compared with ptr::eq
            pe = [blk for blk in cb.blocks if blk.term.kind == 'call' and any(n.endswith('Weak::ptr_eq') or strip_generics(n) in ('std::ptr::eq', 'core::ptr::eq') for n in blk.term.callee_names())]
            # `ptr::eq` compares the addresses of what its arguments point to: with `T = Arc<..>` / `Weak<..>` / `&..` these are
            # the addresses of two *handles* (a local and the caller's), never equal - the entry is never found
            handle_cmp = [blk for blk in pe if any(strip_generics(n) in ('std::ptr::eq', 'core::ptr::eq') for n in blk.term.callee_names()) and
                          adt_of((blk.term.func.const.get('targs') or [''])[0]) != SC]
            for blk in handle_cmp:
                ctx.ob('R16.6', 'the registry compares the caches, not the handles that point to them', False, ctx.where(cb, blk.term.line),
                       'ptr::eq::<%s> compares the addresses of two handles' % (blk.term.func.const.get('targs') or ['?'])[0], construct='registry:detach-handle-compare')
            if len(pe) == 1:
                # returns NOT ptr_eq
                rsrc = set()
                for blk in cb.blocks:
                    for s in blk.stmts:
                        if s.kind == 'assign' and s.place.local == 0:
                            rsrc |= {('rv', s.rv.kind, s.rv.binop)}
                            rsrc |= sources(can, s.rv.ops[0]) if s.rv.ops else set()
                okr = ('rv', 'un', 'Not') in rsrc or any(x[0] == 'bin' and x[1] == 'Not' for x in rsrc)
                # compared with (a weak handle of) the cache of the object being detached: the closure captures it from detach()
                caps = [s_ for blk in dt.blocks for s_ in blk.stmts if s_.kind == 'assign' and s_.rv.kind == 'agg' and s_.rv.j.get('ak') == 'closure' and s_.rv.j.get('def') == cb.path]
                if caps:
                    csrc = set()
                    for o_ in caps[0].rv.ops:
                        csrc |= sources(dan, o_, deep=True)
                    # (as a weak handle, a raw address or a plain reference into the Arc - all name the same allocation)
                    okarg = any(x[0] == 'field' and x[1].endswith('ClientWrapper.statement_cache') for x in csrc)
    ctx.ob('R16.6', 'the registry drops exactly the pointer-equal entries', okr, ctx.where(dt), '', construct='registry:detach')
    ctx.ob('R16.6', 'Manager::detach forwards the object\'s cache to the registry', okarg, ctx.where(dt), '', construct='detach:forward-arg')
    for fn, inner in (('clear', SC + '::clear'), ('remove', SC + '::remove')):
        b = B('deadpool_postgres::StatementCaches::' + fn)
        ban = prog.an(b)
        its = [blk for blk in b.blocks if blk.term.kind == 'call' and not blk.cleanup and any(n.endswith('Iterator::next') for n in blk.term.callee_names())]
        ups_ = [blk for blk in b.blocks if blk.term.kind == 'call' and not blk.cleanup and any(n.endswith('Weak::upgrade') for n in blk.term.callee_names())]
        inn = [blk for blk in b.blocks if blk.term.kind == 'call' and not blk.cleanup and blk.term.rcallee and strip_generics(blk.term.rcallee) == inner]
        lossy = any(blk.term.kind == 'call' and any(n.split('::')[-1] in ('skip', 'take', 'step_by', 'rev', 'filter', 'skip_while', 'take_while', 'nth', 'last', 'find', 'find_map', 'any', 'all') and 'iter' in n.lower() for n in blk.term.callee_names()) for blk in b.blocks)
        fm0 = [blk for blk in b.blocks if blk.term.kind == 'call' and not blk.cleanup and any(n.endswith('Iterator::filter_map') for n in blk.term.callee_names()) and
               any(a.kind == 'const' and a.const.get('fn') and strip_generics(a.const.get('rfn') or a.const['fn']).endswith('Weak::upgrade') for a in blk.term.args)]
        # an explicit loop that upgrades each handle, or a loop over `.filter_map(Weak::upgrade)`
        ok = len(its) == 1 and (len(ups_) == 1 or (not ups_ and len(fm0) == 1)) and len(inn) == 1 and in_cycle(ban, inn[0].idx) and not lossy
        if not ok and not lossy and not its:
            # the same walk as an iterator chain: `.iter().filter_map(Weak::upgrade).for_each(|cache| cache.<inner>(..))`
            fm = [blk for blk in b.blocks if blk.term.kind == 'call' and not blk.cleanup and any(n.endswith('Iterator::filter_map') for n in blk.term.callee_names()) and
                  any(a.kind == 'const' and a.const.get('fn') and strip_generics(a.const.get('rfn') or a.const['fn']).endswith('Weak::upgrade') for a in blk.term.args)]
            fe = [cb_ for blk_, cb_ in closure_args_of(prog, b, ['std::iter::Iterator::for_each'])]
            inner_in = [cb_ for cb_ in fe if any(x.term.kind == 'call' and not x.cleanup and x.term.rcallee and strip_generics(x.term.rcallee) == inner for x in cb_.blocks)]
            ok = len(fm) == 1 and len(fe) == 1 and len(inner_in) == 1
            if ok and fn == 'remove':
                cb_ = inner_in[0]
                icall = [x for x in cb_.blocks if x.term.kind == 'call' and not x.cleanup and x.term.rcallee and strip_generics(x.term.rcallee) == inner][0]
                q = {x[1].split('.')[0] for x in sources(prog.an(cb_), icall.term.args[1]) if x[0] == 'upvar'}; ty = {x[1].split('.')[0] for x in sources(prog.an(cb_), icall.term.args[2]) if x[0] == 'upvar'}
                ctx.ob('R16.6', 'registry remove() forwards query and types', q == {'query'} and ty == {'types'}, ctx.where(cb_, icall.term.line), 'query from %s, types from %s' % (q, ty), construct='registry:remove-args')
        ctx.ob('R16.6', 'registry %s() reaches every registered cache that is still alive' % fn, ok, ctx.where(b), '', construct='registry:' + fn)
        if fn == 'remove' and inn:
            q = {x[1] for x in sources(ban, inn[0].term.args[1]) if x[0] == 'arg'}; ty = {x[1] for x in sources(ban, inn[0].term.args[2]) if x[0] == 'arg'}
            ctx.ob('R16.6', 'registry remove() forwards query and types', q == {'query'} and ty == {'types'}, ctx.where(b, inn[0].term.line), '', construct='registry:remove-args')

    ctx.not_decided += ['anything on the wire: what simple_query("") sends, what a closed socket looks like (tokio_postgres); the server tests cannot run here and no scripted server is used (a runtime technique)',
                        'that the pool calls Manager::detach for every object it lets go of: C09']
    ctx.assumptions += ['tokio_postgres Client::is_closed / simple_query / prepare_typed semantics', 'HashMap / RwLock semantics']
